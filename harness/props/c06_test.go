package props

import (
	"go/parser"
	"go/token"
	"math/rand"
	"strings"
	"testing"

	"verifharness/hist"
)

// The C06 oracle on hand-made outputs: the File's own path declared a dot-import.
func TestC06OracleLocalDotHint(t *testing.T) {
	rc := &RefCase{Paths: []string{"a.b/c", "x.y/c"}, Local: "a.b/c", Anon: map[string]bool{},
		Hints:    map[string][2]string{"a.b/c": {".", "alias"}},
		Rendered: map[int]bool{0: true, 1: true}, Hidden: map[int]bool{}}
	c := &Case{Meta: map[string]interface{}{"rc": rc}}
	run := func(src string) string {
		return c06{}.Oracle(c, []hist.Obs{{Kind: "write", Out: src}})
	}
	good := "package c\n\nimport c1 \"x.y/c\"\n\nvar _ = V0_1\nvar _ = c1.V1_2\n"
	if m := run(good); m != "" {
		t.Fatalf("good output rejected: %s", m)
	}
	bad := map[string]string{
		// the mutant's output: the own path is dot-imported
		"package c\n\nimport (\n\t. \"a.b/c\"\n\tc1 \"x.y/c\"\n)\n\nvar _ = V0_1\nvar _ = c1.V1_2\n": "local package",
		// the own path imported under a name and the reference qualified
		"package c\n\nimport (\n\tc \"a.b/c\"\n\tc1 \"x.y/c\"\n)\n\nvar _ = c.V0_1\nvar _ = c1.V1_2\n": "local package",
		// the other path written bare
		"package c\n\nvar _ = V0_1\nvar _ = V1_2\n": "neither local nor dot-imported",
	}
	for src, want := range bad {
		if m := run(src); !strings.Contains(m, want) {
			t.Errorf("bad output not rejected as expected (%q): got %q\n%s", want, m, src)
		}
	}
}

// The stricter import-set rule of Resolve: an Anon path that is never referenced stays `_`.
func TestResolveAnonThenHint(t *testing.T) {
	rc := &RefCase{Paths: []string{"a.b/d", "x.y/z"}, Anon: map[string]bool{"a.b/d": true, "q.r/s": true},
		Hints:    map[string][2]string{"a.b/d": {"foo", "alias"}, "q.r/s": {"bar", "name"}},
		Rendered: map[int]bool{1: true}, Hidden: map[int]bool{0: true}}
	good := "package p\n\nimport (\n\t_ \"a.b/d\"\n\t_ \"q.r/s\"\n\tz \"x.y/z\"\n)\n\nvar _ = z.V1_1\n"
	if m := rc.Resolve(good); m != "" {
		t.Fatalf("good output rejected: %s", m)
	}
	for src, want := range map[string]string{
		"package p\n\nimport (\n\t_ \"q.r/s\"\n\tz \"x.y/z\"\n)\n\nvar _ = z.V1_1\n":                  "anonymous import \"a.b/d\" is missing",
		"package p\n\nimport (\n\tfoo \"a.b/d\"\n\t_ \"q.r/s\"\n\tz \"x.y/z\"\n)\n\nvar _ = z.V1_1\n": "instead of _",
		"package p\n\nimport (\n\t_ \"a.b/d\"\n\t\"q.r/s\"\n\tz \"x.y/z\"\n)\n\nvar _ = z.V1_1\n":     "instead of _",
		"package p\n\nimport (\n\t_ \"a.b/d\"\n\t_ \"q.r/s\"\n\t_ \"x.y/z\"\n)\n\nvar _ = z.V1_1\n":   "no import provides the name z",
	} {
		if m := rc.Resolve(src); !strings.Contains(m, want) {
			t.Errorf("want %q, got %q for\n%s", want, m, src)
		}
	}
}

// The multi-render oracle on hand-made outputs: NewFilePathName("a.b/c", "q"); references to
// a.b/c (local), fmt (U: unaliased first, dot hint later) and x.y/d (D: dot first, ordinary
// hint later); File.Render, ImportAlias("fmt", "."), ImportAlias("x.y/d", "foo"), a fragment,
// File.Render.
func TestC06MultiRenderOracle(t *testing.T) {
	info := &c06multi{Paths: []string{"a.b/c", "fmt", "x.y/d"}, Local: "a.b/c"}
	h := hist.History{
		{Kind: "newfilepathname", F: 0, A: "a.b/c", B: "q"},
		{Kind: "importalias", F: 0, A: "x.y/d", B: "."},
		{Kind: "render", F: 0}, {Kind: "imports", F: 0},
		{Kind: "importalias", F: 0, A: "fmt", B: "."},
		{Kind: "importalias", F: 0, A: "x.y/d", B: "foo"},
		{Kind: "rcode", F: 0}, {Kind: "imports", F: 0},
		{Kind: "render", F: 0}, {Kind: "imports", F: 0},
	}
	c := &Case{Hist: h, Meta: map[string]interface{}{"c06multi": info}}
	w := func(s string) hist.Obs { return hist.Obs{Kind: "write", Out: s} }
	tab := hist.Obs{Kind: "imports", Imports: []hist.Import{{Path: "fmt", Name: "fmt"}, {Path: "x.y/d", Name: ".", Alias: true}}}
	file := "package q\n\nimport (\n\t\"fmt\"\n\t. \"x.y/d\"\n)\n\nvar _ = V0_1\nvar _ = fmt.V1_2\nvar _ = V2_3\n"
	frag := "var _ = f(fmt.V1_4, V2_5, V0_6)"
	good := []hist.Obs{w(file), tab, w(frag), tab, w(file), tab}
	if m := (c06{}).Oracle(c, good); m != "" {
		t.Fatalf("good history rejected: %s", m)
	}
	with := func(k int, o hist.Obs) []hist.Obs {
		out := append([]hist.Obs{}, good...)
		out[k] = o
		return out
	}
	for name, b := range map[string]struct {
		obs  []hist.Obs
		want string
	}{
		// the later dot hint is applied to the references only
		"second render writes fmt bare, block unchanged": {with(4, w("package q\n\nimport (\n\t\"fmt\"\n\t. \"x.y/d\"\n)\n\nvar _ = V0_1\nvar _ = V1_2\nvar _ = V2_3\n")), "keeps the form of its first rendering"},
		// ... to the block only
		"second render dot-imports fmt, references qualified": {with(4, w("package q\n\nimport (\n\t. \"fmt\"\n\t. \"x.y/d\"\n)\n\nvar _ = V0_1\nvar _ = fmt.V1_2\nvar _ = V2_3\n")), "dot-imports \"fmt\", but the path is written as fmt.X"},
		// ... to both: consistent Go, but the path changes its form
		"second render switches fmt to a dot-import":            {with(4, w("package q\n\nimport (\n\t. \"fmt\"\n\t. \"x.y/d\"\n)\n\nvar _ = V0_1\nvar _ = V1_2\nvar _ = V2_3\n")), "keeps the form of its first rendering"},
		"second render applies the ordinary alias to the block": {with(4, w("package q\n\nimport (\n\t\"fmt\"\n\tfoo \"x.y/d\"\n)\n\nvar _ = V0_1\nvar _ = fmt.V1_2\nvar _ = V2_3\n")), "does not dot-import \"x.y/d\""},
		"second render qualifies the former dot-import":         {with(4, w("package q\n\nimport (\n\t\"fmt\"\n\tfoo \"x.y/d\"\n)\n\nvar _ = V0_1\nvar _ = fmt.V1_2\nvar _ = foo.V2_3\n")), "keeps the form of its first rendering"},
		"fragment follows the later dot hint":                   {with(2, w("var _ = f(V1_4, V2_5, V0_6)")), "keeps the form of its first rendering"},
		"fragment qualifies the local path":                     {with(2, w("var _ = f(fmt.V1_4, V2_5, c.V0_6)")), "keeps the form of its first rendering"},
		"table disagrees with the fragment":                     {with(3, hist.Obs{Kind: "imports", Imports: []hist.Import{{Path: "fmt", Name: ".", Alias: true}, {Path: "x.y/d", Name: ".", Alias: true}}}), "registers it as \".\""},
		"table loses the dot-import":                            {with(3, hist.Obs{Kind: "imports", Imports: []hist.Import{{Path: "fmt", Name: "fmt"}, {Path: "x.y/d", Name: "foo", Alias: true}}}), "not as a dot-import"},
		"table holds the own path":                              {with(1, hist.Obs{Kind: "imports", Imports: append([]hist.Import{{Path: "a.b/c", Name: "c", Alias: true}}, tab.Imports...)}), "holds the File's own path"},
		"first render qualifies the dot-import":                 {with(0, w("package q\n\nimport (\n\t\"fmt\"\n\td \"x.y/d\"\n)\n\nvar _ = V0_1\nvar _ = fmt.V1_2\nvar _ = d.V2_3\n")), "declared a dot-import at its first rendering but is qualified"},
		"first render writes fmt bare":                          {with(0, w("package q\n\nimport (\n\t. \"fmt\"\n\t. \"x.y/d\"\n)\n\nvar _ = V0_1\nvar _ = V1_2\nvar _ = V2_3\n")), "written bare at its first rendering"},
		"own path imported":                                     {with(4, w("package q\n\nimport (\n\t. \"a.b/c\"\n\t\"fmt\"\n\t. \"x.y/d\"\n)\n\nvar _ = V0_1\nvar _ = fmt.V1_2\nvar _ = V2_3\n")), "imports the File's own path"},
		"import dropped by the second render":                   {with(4, w("package q\n\nimport . \"x.y/d\"\n\nvar _ = V0_1\nvar _ = fmt.V1_2\nvar _ = V2_3\n")), "does not import it"},
		"alias nobody declared":                                 {with(4, w("package q\n\nimport (\n\t\"fmt\"\n\t. \"x.y/d\"\n)\n\nvar _ = V0_1\nvar _ = fmt1.V1_2\nvar _ = V2_3\n")), "keeps the form of its first rendering"},
		"second render fails":                                   {with(4, hist.Obs{Kind: "fmterr", Out: "x"}), "did not render"},
	} {
		if m := (c06{}).Oracle(c, b.obs); !strings.Contains(m, b.want) {
			t.Errorf("%s: want %q, got %q", name, b.want, m)
		}
	}
	// unaliased import whose qualifier nothing declares
	c2 := &Case{Hist: hist.History{{Kind: "newfile", F: 0, A: "p"}, {Kind: "render", F: 0}}, Meta: map[string]interface{}{"c06multi": &c06multi{Paths: []string{"x.y/d"}}}}
	if m := (c06{}).Oracle(c2, []hist.Obs{w("package p\n\nimport \"x.y/d\"\n\nvar _ = d.V0_1\n")}); !strings.Contains(m, "nothing declares that name") {
		t.Errorf("undeclared name accepted: %q", m)
	}
}

// The stream holds on the unchanged tree, and its tags are honest: a case tagged
// dot-hint-after-unaliased-render really has a path that the first File.Render imports
// WITHOUT alias, that is declared a dot-import afterwards, and that a later File.Render
// writes again.
func TestC06MultiRenderGenerate(t *testing.T) {
	r := rand.New(rand.NewSource(3))
	tagged := 0
	for n := 0; n < 600; n++ {
		c := c06MultiCase(r)
		got := hist.NewWorld().Exec(c.Hist)
		if m := (c06{}).Oracle(c, got); m != "" {
			t.Fatalf("oracle fails on the unchanged tree: %s\n%s", m, c.Hist.Sexp())
		}
		if !hasTag(c, "dot-hint-after-unaliased-render") {
			continue
		}
		tagged++
		oi, renders := 0, 0
		unaliased := map[string]bool{}
		dotted := map[string]bool{}
		ok := false
		for _, op := range c.Hist {
			switch op.Kind {
			case "importalias":
				if op.B == "." && unaliased[op.A] {
					dotted[op.A] = true
				}
			case "imports", "rcode":
				oi++
			case "render":
				renders++
				src := got[oi].Out
				oi++
				pf, err := parser.ParseFile(token.NewFileSet(), "x.go", src, parser.ImportsOnly)
				if err != nil {
					t.Fatal(err)
				}
				specs, _ := parseImports(pf)
				for _, sp := range specs {
					if renders == 1 && sp.name == "" {
						unaliased[sp.path] = true
					}
					if renders > 1 && dotted[sp.path] && sp.name == "" {
						ok = true
					}
				}
			}
		}
		if !ok {
			t.Fatalf("tag dot-hint-after-unaliased-render is not honest for %s", c.Hist.Sexp())
		}
	}
	if tagged < 300 {
		t.Errorf("only %d of 600 cases tagged", tagged)
	}
}

// Stream settings-as-paths: the oracle rejects the outputs of a File that takes a path spelled
// like its package name / canonical path for the local package, and the stream reaches those
// shapes for all three constructors.
func TestSettingsAsPathsOracle(t *testing.T) {
	// NewFile("log") referencing "log" and "io": nothing is local
	rc := &RefCase{Paths: []string{"log", "io"}, Anon: map[string]bool{}, Hints: map[string][2]string{},
		Rendered: map[int]bool{0: true, 1: true}, Hidden: map[int]bool{}}
	c := &Case{Meta: map[string]interface{}{"rc": rc}}
	for _, p := range []Property{c04{}, c06{}} {
		if m := p.Oracle(c, []hist.Obs{{Kind: "write", Out: "package log\n\nimport (\n\t\"io\"\n\t\"log\"\n)\n\nvar _ = log.V0_1\nvar _ = io.V1_2\n"}}); m != "" {
			t.Fatalf("%s: good output rejected: %s", p.ID(), m)
		}
		if m := p.Oracle(c, []hist.Obs{{Kind: "write", Out: "package log\n\nimport \"io\"\n\nvar _ = V0_1\nvar _ = io.V1_2\n"}}); !strings.Contains(m, "neither local nor dot-imported") {
			t.Errorf("%s: bare reference to a path spelled like the package name accepted: %q", p.ID(), m)
		}
	}
	// NewFilePathName("a.b/c", "main") with CanonicalPath "x.y/c" referencing "x.y/c": only a.b/c is local
	rc2 := &RefCase{Paths: []string{"x.y/c", "a.b/c"}, Local: "a.b/c", Anon: map[string]bool{}, Hints: map[string][2]string{},
		Rendered: map[int]bool{0: true, 1: true}, Hidden: map[int]bool{}}
	c2 := &Case{Meta: map[string]interface{}{"rc": rc2}}
	if m := (c06{}).Oracle(c2, []hist.Obs{{Kind: "write", Out: "package main // import \"x.y/c\"\n\nimport c \"x.y/c\"\n\nvar _ = c.V0_1\nvar _ = V1_2\n"}}); m != "" {
		t.Fatalf("good output rejected: %s", m)
	}
	if m := (c06{}).Oracle(c2, []hist.Obs{{Kind: "write", Out: "package main // import \"x.y/c\"\n\nvar _ = V0_1\nvar _ = V1_2\n"}}); !strings.Contains(m, "neither local nor dot-imported") {
		t.Errorf("bare reference to the canonical path accepted: %q", m)
	}
	r := rand.New(rand.NewSource(5))
	n := map[string]int{}
	for i := 0; i < 1500; i++ {
		c := settingsCase(r)
		if m := (c06{}).Oracle(c, hist.NewWorld().Exec(c.Hist)); m != "" {
			t.Fatalf("oracle fails on the unchanged tree: %s\n%s", m, c.Hist.Sexp())
		}
		ctor := ""
		for _, tg := range c.Tags {
			if strings.HasPrefix(tg, "ctor=") {
				ctor = tg
			}
		}
		for _, tg := range c.Tags {
			n[tg]++
			if strings.HasPrefix(tg, "ref=") {
				n[ctor+" "+tg]++
			}
		}
		// honest tags: ref=package-name means a rendered reference whose path is the constructor's name
		if hasTag(c, "ref=package-name") {
			rc := c.Meta["rc"].(*RefCase)
			name := c.Hist[0].A
			if c.Hist[0].Kind == "newfilepathname" {
				name = c.Hist[0].B
			}
			if c.Hist[0].Kind == "newfilepath" || !rc.Referenced(name) {
				t.Fatalf("tag ref=package-name is not honest: %s", c.Hist.Sexp())
			}
		}
	}
	for _, want := range []string{"ctor=newfile ref=package-name", "ctor=newfilepathname ref=package-name", "ctor=newfilepath ref=inferred-name",
		"ctor=newfile ref=canonical", "ctor=newfilepath ref=canonical", "ctor=newfilepathname ref=canonical", "ctor=newfile ref=prefix", "ctor=newfile ref=hint-name",
		"ctor=newfilepath ref=local", "ctor=newfilepathname ref=local", "name=path", "canonical=local", "anon=package-name", "hidden=package-name", "hidden=canonical"} {
		if n[want] < 5 {
			t.Errorf("shape %q reached only %d times in 1500 cases", want, n[want])
		}
	}
}

// Stream op-order: File.Anon discards the registration of a path, so the output after it is
// judged like a first rendering under the hint in force; everything else keeps its form.
func TestC06OpOrderOracle(t *testing.T) {
	info := &c06multi{Paths: []string{"d.e/f", "g.h/i"}}
	h := hist.History{
		{Kind: "newfile", F: 0, A: "p"},
		{Kind: "importalias", F: 0, A: "d.e/f", B: "."},
		{Kind: "importalias", F: 0, A: "g.h/i", B: "."},
		{Kind: "render", F: 0}, {Kind: "imports", F: 0},
		{Kind: "anon", F: 0, Strs: []string{"d.e/f"}},
		{Kind: "render", F: 0}, {Kind: "imports", F: 0},
	}
	c := &Case{Hist: h, Meta: map[string]interface{}{"c06multi": info}}
	w := func(s string) hist.Obs { return hist.Obs{Kind: "write", Out: s} }
	tab := hist.Obs{Kind: "imports", Imports: []hist.Import{{Path: "d.e/f", Name: ".", Alias: true}, {Path: "g.h/i", Name: ".", Alias: true}}}
	file := "package p\n\nimport (\n\t. \"d.e/f\"\n\t. \"g.h/i\"\n)\n\nvar _ = V0_1\nvar _ = V1_2\n"
	if m := (c06{}).Oracle(c, []hist.Obs{w(file), tab, w(file), tab}); m != "" {
		t.Fatalf("good history rejected: %s", m)
	}
	// the seeded shape: the dot hint is forgotten after the Anon
	bad := "package p\n\nimport (\n\tf \"d.e/f\"\n\t. \"g.h/i\"\n)\n\nvar _ = f.V0_1\nvar _ = V1_2\n"
	tab2 := hist.Obs{Kind: "imports", Imports: []hist.Import{{Path: "d.e/f", Name: "f", Alias: true}, {Path: "g.h/i", Name: ".", Alias: true}}}
	if m := (c06{}).Oracle(c, []hist.Obs{w(file), tab, w(bad), tab2}); !strings.Contains(m, "declared a dot-import at its first rendering but is qualified by f") {
		t.Errorf("lost dot-import after Anon accepted: %q", m)
	}
	// the Anon'd path left as `_` although it is written
	bad2 := "package p\n\nimport (\n\t_ \"d.e/f\"\n\t. \"g.h/i\"\n)\n\nvar _ = V0_1\nvar _ = V1_2\n"
	if m := (c06{}).Oracle(c, []hist.Obs{w(file), tab, w(bad2), tab}); !strings.Contains(m, "imports \"d.e/f\" as _ although it was written") {
		t.Errorf("written path imported as _ accepted: %q", m)
	}
	// without the dot hint, a bare reference after the Anon is rejected as well
	h2 := append(hist.History{}, h...)
	h2[1] = hist.Op{Kind: "importalias", F: 0, A: "d.e/f", B: "zz"}
	c2 := &Case{Hist: h2, Meta: map[string]interface{}{"c06multi": info}}
	q := "package p\n\nimport (\n\tzz \"d.e/f\"\n\t. \"g.h/i\"\n)\n\nvar _ = zz.V0_1\nvar _ = V1_2\n"
	tabq := hist.Obs{Kind: "imports", Imports: []hist.Import{{Path: "d.e/f", Name: "zz", Alias: true}, {Path: "g.h/i", Name: ".", Alias: true}}}
	if m := (c06{}).Oracle(c2, []hist.Obs{w(q), tabq, w(q), tabq}); m != "" {
		t.Fatalf("good history rejected: %s", m)
	}
	if m := (c06{}).Oracle(c2, []hist.Obs{w(q), tabq, w(file), tab}); !strings.Contains(m, "written bare at its first rendering") {
		t.Errorf("bare reference after Anon accepted: %q", m)
	}
}

// The op-order stream holds on the unchanged tree, covers every ordered pair of operations in
// every slot pair for every subject kind, and its before/after tags are honest.
func TestC06OpOrderGenerate(t *testing.T) {
	cases := c06OpOrderCases(rand.New(rand.NewSource(4)), "quick")
	n := map[string]int{}
	for _, c := range cases {
		got := hist.NewWorld().Exec(c.Hist)
		if m := (c06{}).Oracle(c, got); m != "" {
			t.Fatalf("oracle fails on the unchanged tree: %s\n%s", m, c.Hist.Sexp())
		}
		kind := ""
		for _, tg := range c.Tags {
			if strings.HasPrefix(tg, "subject=") {
				kind = tg
			}
		}
		for _, tg := range c.Tags {
			n[tg]++
			if strings.HasPrefix(tg, "order=") || strings.HasPrefix(tg, "after-first-rendering=") {
				n[kind+" "+tg]++
			}
		}
		// honest: after-first-rendering=<op> means that some output BEFORE an operation of that kind
		// already wrote the subject
		subject := c.Meta["c06multi"].(*c06multi).Paths[0]
		rc := &RefCase{Paths: c.Meta["c06multi"].(*c06multi).Paths}
		written, oi := false, 0
		after := map[string]bool{}
		for _, op := range c.Hist {
			switch op.Kind {
			case "imports":
				oi++
			case "render", "rcode":
				src := got[oi].Out
				oi++
				if op.Kind == "rcode" {
					src, _ = c08Wrap(src)
				}
				qm, _ := rc.QualifierMap(src)
				if _, ok := qm[subject]; ok {
					written = true
				}
			case "anon":
				after["anon"] = after["anon"] || written
			case "importname":
				after["name"] = after["name"] || written
			case "importnames":
				after["names"] = after["names"] || written
			case "importalias":
				if op.A != subject {
					continue
				}
				if op.B == "." {
					after["dot"] = after["dot"] || written
				} else {
					after["alias"] = after["alias"] || written
				}
			}
		}
		for _, k := range opOrderKinds {
			if after[k] != hasTag(c, "after-first-rendering="+k) {
				t.Fatalf("tag after-first-rendering=%s (%v) is not honest for %s", k, hasTag(c, "after-first-rendering="+k), c.Hist.Sexp())
			}
		}
	}
	for _, kind := range []string{"std", "std-collide", "user", "user-collide", "local"} {
		for _, a := range opOrderKinds {
			for _, b := range opOrderKinds {
				if kind == "local" && (a == "anon" || b == "anon") {
					continue
				}
				if n["subject="+kind+" order="+a+"-then-"+b] < 30 {
					t.Errorf("%s: order %s-then-%s has %d cases", kind, a, b, n["subject="+kind+" order="+a+"-then-"+b])
				}
			}
			if a != "anon" || kind != "local" {
				if n["subject="+kind+" after-first-rendering="+a] < 50 {
					t.Errorf("%s: %s after the first rendering has %d cases", kind, a, n["subject="+kind+" after-first-rendering="+a])
				}
			}
		}
	}
}
