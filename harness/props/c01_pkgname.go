package props

import (
	"fmt"
	"math/rand"
	"os"

	"github.com/dave/jennifer/jen"

	"verifharness/hist"
	"verifharness/term"
)

// ---- stream "generated-pkgname" ------------------------------------------------------------------
//
// Generated programs (c01gen.go) whose PACKAGE NAME is not an unrelated word but something the
// file imports: real wrapper packages are named after what they wrap.
//
//	name=import-path    the name is the import path of a single-element standard-library import
//	                    (package errors importing "errors", context, log, sort, slices ...)
//	name=declared-name  the name is the declared name of an import with a longer path (package
//	                    rand importing "math/rand", package yaml importing "gopkg.in/yaml.v3")
//	name=import-alias   the name is the alias of one of the imports
//
// and, independently, where the file is said to live (the rebuilder opens a file that has a
// directory with NewFilePathName(dir, name) or NewFile(name), half and half; without one always
// with NewFile(name)):
//
//	dir=none            no directory
//	dir=ends-in-name    example.com/gen/<name>
//	dir=under-name      <name>/internal/impl  (the FIRST element is the name: for name=import-path
//	                    the directory lies below the imported package's path)
//
// Everything else is the generator of stream "generated".  The imported package is referenced
// (every import of a generated file is), so a File that takes its own name for a path - or a
// path for its name - drops or misspells a qualifier and the output no longer re-parses to
// the original.
var c01OneElemStd = []string{"errors", "context", "log", "sort", "time", "sync", "fmt", "os", "io", "bytes", "strings", "flag",
	"math", "path", "html", "regexp", "unicode", "reflect", "bufio", "slices", "maps", "cmp", "embed", "expvar", "hash", "image", "mime", "net", "plugin", "syscall", "testing", "unsafe"}

// pkgNameFromImports chooses the package name from the imports drawn so far (adding the import it
// needs when there is none of the wanted kind) and returns the number of imports.
func (g *srcGen) pkgNameFromImports() int {
	r := g.r
	var usable []*genImport
	for _, im := range g.imports {
		if im.alias != "_" {
			usable = append(usable, im)
		}
	}
	switch g.pkgMode {
	case 1:
		p := pick(r, c01OneElemStd)
		var im *genImport
		for _, x := range g.imports {
			if x.path == p {
				im = x
			}
		}
		if im == nil {
			im = &genImport{path: p, name: p}
			g.imports = append(g.imports, im)
		}
		im.alias = ""
		if r.Intn(5) == 0 {
			im.alias = "std" + p // the wrapped package under an alias, the file still named like its path
			g.tag("pkgname:import-aliased")
		}
		g.pkgName = p
		g.tag("pkgname:name=import-path")
	case 2:
		var long []*genImport
		for _, im := range usable {
			if im.name != im.path {
				long = append(long, im)
			}
		}
		if len(long) == 0 {
			for _, x := range g.imports {
				if x.path == "math/rand" {
					x.alias = ""
					long = append(long, x)
				}
			}
			if len(long) == 0 {
				im := &genImport{path: "math/rand", name: "rand"}
				g.imports = append(g.imports, im)
				long = append(long, im)
			}
		}
		g.pkgName = long[r.Intn(len(long))].name
		g.tag("pkgname:name=declared-name")
	default:
		var aliased []*genImport
		for _, im := range usable {
			if im.alias != "" {
				aliased = append(aliased, im)
			}
		}
		if len(aliased) == 0 {
			if len(usable) == 0 {
				usable = append(usable, &genImport{path: "fmt", name: "fmt"})
				g.imports = append(g.imports, usable[0])
			}
			im := usable[r.Intn(len(usable))]
			im.alias = pick(r, []string{"wrapped", "impl", "Q", "é"})
			aliased = append(aliased, im)
		}
		g.pkgName = aliased[r.Intn(len(aliased))].alias
		g.tag("pkgname:name=import-alias")
	}
	return len(g.imports)
}

// GenSourcePkgName is GenSource with the package name taken from the imports (mode 1..3).
func GenSourcePkgName(r *rand.Rand, depth, size, mode int) (src string, tags []string, name string) {
	g := &srcGen{r: r, budget: size, tags: map[string]bool{}, pkgMode: mode}
	g.fileHeader()
	nd := g.count()
	if nd == 0 {
		nd = 1
	}
	for i := 0; i < nd; i++ {
		g.w("\n")
		g.declared = g.declared[:0]
		if r.Intn(2) == 0 {
			g.funcDecl(depth)
		} else {
			g.genDecl(depth)
		}
		g.w("\n")
	}
	src, tags = g.fileEnd()
	return src, tags, g.pkgName
}

func (p *c01) pkgNameStream(r *rand.Rand, t string) []*Case {
	n := tier(t, 360, 6000)
	var out []*Case
	for i := 0; i < n; i++ {
		mode := 1 + i%3
		if i%2 == 0 {
			mode = 1 // half of the cases: the name is an import PATH
		}
		src, tags, name := GenSourcePkgName(r, 2+r.Intn(5), 20+r.Intn(120), mode)
		dir, dirTag := "", "none"
		switch r.Intn(3) {
		case 1:
			dir, dirTag = "example.com/gen/"+name, "ends-in-name"
		case 2:
			dir, dirTag = name+"/internal/impl", "under-name"
		}
		c := p.c01Case("generated-pkgname", fmt.Sprintf("pkgname%d.go", i), []byte(src), rand.New(rand.NewSource(r.Int63())), dir, genPkgNameOrStd, false)
		if c.Meta["skip"] == "parse-error" {
			fmt.Fprintf(os.Stderr, "C01: the pkgname generator produced a program that does not parse (generator defect):\n%s\n", src)
		}
		c.Tags = append(c.Tags, tags...)
		c.Tags = append(c.Tags, "pkgname:dir="+dirTag)
		if len(c.Hist) > 0 {
			c.Tags = append(c.Tags, "pkgname:constructor="+c.Hist[0].Kind)
		}
		if i%2 == 1 {
			c01ReuseSlices(c)
		}
		out = append(out, c)
	}
	p.totals("generated-pkgname", out)
	return out
}

// ---- building style "caller reuses its slices" -----------------------------------------------
//
// A generator keeps slices of Code values of its own - a prefix it starts several statements
// from, a buffer it fills for every call - and hands them to the variadic Add: Add APPENDS the
// items to the statement, so the slice stays the caller's, who may overwrite it (and the spare
// capacity behind it) as soon as the call has returned.  In this style (tag
// build=caller-reuses-add-slices; the history, and so the model's line, is the same)
//
//   - every File.Add of the history is handed a slice with spare capacity, and the whole backing
//     array is overwritten with a marker identifier once Add has returned (hist.World.ReuseAddSlices);
//   - every statement of the tree whose first items are nested statements (Add(x).Op("+")...:
//     the rebuilder spells operands that way half of the time) is started with the package
//     function Add(prefix...) on such a slice - taken from one buffer that the builder uses for
//     every statement it starts - and the remaining items are chained onto the result.
//
// A statement that keeps the caller's slice instead of copying shows the marker (or the items of
// the statement that was started next) in its output: the oracle sees a tree other than the
// original's.
const c01Marker = "CLOBBERED_BY_THE_CALLER"

type c01ReuseBuilder struct {
	bd   *term.Builder
	memo map[*term.Stmt]*jen.Statement
	buf  []jen.Code // the caller's one buffer
	used int        // statements started through Add(prefix...)
	onUse func()
}

func (rb *c01ReuseBuilder) stmt(st *term.Stmt) *jen.Statement {
	if s, ok := rb.memo[st]; ok {
		return s
	}
	k := 0
	for k < len(st.Items) {
		if _, ok := st.Items[k].(*term.Stmt); !ok {
			break
		}
		k++
	}
	if k == 0 {
		if len(st.Items) > 0 {
			if cm, ok := st.Items[0].(term.Comment); ok && cm.Fmt != nil && cm.Fmt.Via != "" {
				// (never in C01: the rebuilder drops comments) the default builder knows the entry points
				rb.bd.StmtHook = nil
				s := rb.bd.Stmt(st)
				rb.bd.StmtHook = rb.stmt
				rb.memo[st] = s
				return s
			}
		}
		s := &jen.Statement{}
		rb.memo[st] = s
		for _, it := range st.Items {
			rb.bd.Append(s, it)
		}
		return s
	}
	// the operands first (they may use the buffer themselves), then the prefix in the buffer
	codes := make([]jen.Code, k)
	for i := 0; i < k; i++ {
		codes[i] = rb.bd.Code(st.Items[i])
	}
	if cap(rb.buf) < k+4 {
		rb.buf = make([]jen.Code, 0, 2*(k+4))
	}
	pre := append(rb.buf[:0], codes...) // len k, spare capacity behind it
	s := jen.Add(pre...)
	rb.memo[st] = s
	rb.used++
	if rb.onUse != nil {
		rb.onUse()
	}
	for _, it := range st.Items[k:] {
		rb.bd.Append(s, it)
	}
	// the call has long returned: the buffer is the caller's again
	full := pre[:cap(pre)]
	for i := range full {
		full[i] = jen.Id(c01Marker)
	}
	return s
}

// c01ReuseSlices switches a case to the building style above.
func c01ReuseSlices(c *Case) {
	if c.Meta == nil || c.Meta["skip"] != nil {
		return
	}
	c.Tags = append(c.Tags, "build=caller-reuses-add-slices")
	tagged := false
	c.Meta["world"] = func(w *hist.World) {
		w.ReuseAddSlices = true
		rb := &c01ReuseBuilder{bd: w.B, memo: map[*term.Stmt]*jen.Statement{}}
		rb.onUse = func() {
			if !tagged {
				// measured while the history is executed (before the tags of the run are counted)
				tagged = true
				c.Tags = append(c.Tags, "build=statement-started-with-Add(prefix...)")
			}
		}
		w.B.StmtHook = rb.stmt
	}
}
