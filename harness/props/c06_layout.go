package props

import (
	"fmt"
	"math/rand"
	"sort"
	"strings"

	"verifharness/hist"
)

// C06, round 6.  Two dimensions the earlier streams did not have:
//
//	layout     the LAYOUT of the import block the references have to agree with.  renderImports
//	           has separate code for: nothing to import, exactly one import (`import x "p"` on one
//	           line), several (parenthesised block), and - with a cgo preamble - "C" taken out of
//	           the count and written in a declaration of its own.  Enumerated: (0, 1, 2 other imports,
//	           every combination of KINDS: dot-import, ImportAlias, ImportName, Anon, standard library,
//	           unhinted path with a guessed alias) x (no preamble, one block, two blocks) x ("C" not
//	           mentioned, Qual("C"), Anon("C"), both) x (NewFile, NewFilePath, NewFilePathName); a
//	           reference to the File's own path in the body whenever the File has a path; prefix and
//	           NoFormat alternate.  3 and 4 other imports are drawn.  So a LONE dot-import is met
//	           next to a preamble, next to an unreferenced Anon, next to a local reference ...
//	pkg-names  the package NAME of the File, which has no say in what is local: names ending in
//	           `_test`, `main`, names of predeclared identifiers, names with digits and underscores,
//	           a name equal to the name / alias / guessed alias of one of the imports, a name equal
//	           (as a string) to a referenced path - through NewFilePathName (path given), NewFile (no
//	           path: nothing is local) and NewFilePath with paths whose last element has those shapes.
//	           The body refers to the own path (bare, never imported), to near misses of it and to
//	           the name used as a path (imported normally), to a dot-import and to an ordinary path.
//
// Oracle: the one of the first stream (every traced reference resolved against the import
// block of the same output with go/parser: RefCase.Resolve, then bare-iff-local-or-dot).

type c06Imp struct {
	Kind string // dot alias name anon std plain
	Path string
	Name string
}

var c06ImpKinds = []string{"dot", "alias", "name", "anon", "std", "plain"}

// slot i of a file gets the i-th path of its kind: all distinct, none colliding with another
// one's name, sorting before and after "C".
var c06ImpPaths = map[string][]string{
	"dot":   {"d.e/f", "g.h/dotted", "B.c/early", "x.y/dots"},
	"alias": {"a.b/aliased", "m.n/aliased2", "A.b/al3", "x.y/al4"},
	"name":  {"a.b/named", "k.l/named2", "D.e/nm3", "x.y/nm4"},
	"anon":  {"a.b/sideeffect", "o.p/side2", "E.f/side3", "x.y/side4"},
	"std":   {"fmt", "os", "strings", "io"},
	"plain": {"a.b/guess", "gopkg.in/yaml.v3", "F.g/plain3", "x.y/pkg"},
}

func c06MkImp(kind string, slot int) c06Imp {
	im := c06Imp{Kind: kind, Path: c06ImpPaths[kind][slot]}
	switch kind {
	case "alias":
		im.Name = fmt.Sprintf("al%d", slot)
	case "name":
		im.Name = fmt.Sprintf("nm%d", slot)
	}
	return im
}

type c06Layout struct {
	Ctor     hist.Op
	Local    string
	Prefix   string
	NoFormat bool
	Pre      []string // preamble blocks
	CQual    bool
	CAnon    bool
	Imps     []c06Imp
	Extra    []string // further referenced paths (near misses, the package name as a path): imported under a guessed alias
	Tags     []string
}

func c06LayoutCase(r *rand.Rand, l *c06Layout, stream string) *Case {
	setup := hist.History{l.Ctor}
	if l.Prefix != "" {
		setup = append(setup, hist.Op{Kind: "prefix", F: 0, A: l.Prefix})
	}
	// hints, Anon and CgoPreamble calls in a drawn order (the preamble blocks keep theirs)
	var ops hist.History
	var paths []string
	if l.Local != "" {
		paths = append(paths, l.Local)
	}
	if l.CQual {
		paths = append(paths, "C")
	}
	for _, im := range l.Imps {
		switch im.Kind {
		case "dot":
			ops = append(ops, hist.Op{Kind: "importalias", F: 0, A: im.Path, B: "."})
		case "alias":
			ops = append(ops, hist.Op{Kind: "importalias", F: 0, A: im.Path, B: im.Name})
		case "name":
			ops = append(ops, hist.Op{Kind: "importname", F: 0, A: im.Path, B: im.Name})
		case "anon":
			ops = append(ops, hist.Op{Kind: "anon", F: 0, Strs: []string{im.Path}})
			continue
		}
		paths = append(paths, im.Path)
	}
	if l.CAnon {
		ops = append(ops, hist.Op{Kind: "anon", F: 0, Strs: []string{"C"}})
	}
	r.Shuffle(len(ops), func(a, b int) { ops[a], ops[b] = ops[b], ops[a] })
	at := 0
	for _, p := range l.Pre {
		at += r.Intn(len(ops) - at + 1)
		ops = append(ops[:at:at], append(hist.History{{Kind: "cgo", F: 0, A: p}}, ops[at:]...)...)
		at++
	}
	setup = append(setup, ops...)
	paths = append(paths, l.Extra...)
	var refs []int
	for i := range paths {
		for k := 1 + r.Intn(2); k > 0; k-- {
			refs = append(refs, i)
		}
	}
	r.Shuffle(len(refs), func(a, b int) { refs[a], refs[b] = refs[b], refs[a] })
	rc, h := BuildRefCase(r, paths, setup, l.Local, refs, nil)
	h = append(h, hist.Op{Kind: "noformat", F: 0, Flag: l.NoFormat}, hist.Op{Kind: "render", F: 0}, hist.Op{Kind: "imports", F: 0})

	// tags: what the import block looks like
	inBlock := len(l.Imps) + len(l.Extra)
	if len(l.Pre) == 0 && (l.CQual || l.CAnon) {
		inBlock++ // "C" is an ordinary member of the block
	}
	form := "none"
	switch {
	case inBlock == 1:
		form = "single-line"
	case inBlock > 1:
		form = "parenthesised"
	}
	cuse := "not-mentioned"
	switch {
	case l.CQual && l.CAnon:
		cuse = "qual+anon"
	case l.CQual:
		cuse = "qual"
	case l.CAnon:
		cuse = "anon"
	}
	var kinds []string
	ndot := 0
	for _, im := range l.Imps {
		kinds = append(kinds, im.Kind)
		if im.Kind == "dot" {
			ndot++
		}
	}
	sort.Strings(kinds)
	tags := append([]string{}, l.Tags...)
	tags = append(tags, "ctor="+l.Ctor.Kind, fmt.Sprintf("local=%v", l.Local != ""), fmt.Sprintf("dots=%d", ndot), "renders=1",
		"import-block="+form, fmt.Sprintf("other-imports=%d", c01Min(len(l.Imps)+len(l.Extra), 4)), fmt.Sprintf("preamble-blocks=%d", len(l.Pre)), "C="+cuse,
		"prefix="+onoff(l.Prefix != ""), fmt.Sprintf("noformat=%v", l.NoFormat))
	if len(l.Imps) <= 2 && len(l.Extra) == 0 {
		tags = append(tags, "kinds="+strings.Join(kinds, "+"))
	}
	for _, k := range kinds {
		tags = append(tags, "kind="+k)
	}
	if inBlock == 1 && len(l.Imps) == 1 {
		lone := "lone-import=" + l.Imps[0].Kind
		tags = append(tags, lone)
		if len(l.Pre) > 0 {
			tags = append(tags, lone+"+preamble")
			if l.CQual || l.CAnon {
				tags = append(tags, lone+"+preamble+C-"+cuse)
			}
		}
	}
	sort.Strings(tags)
	// NonTrivial: the body holds at least one traced reference (to the own path, to "C" or to an
	// import) or the file has an import to lay out
	nt := len(paths) > 0 || len(l.Imps) > 0 || l.CAnon || len(l.Pre) > 0
	return &Case{Hist: h, Stream: stream, NonTrivial: nt, Tags: tags, Meta: map[string]interface{}{"rc": rc, "ndot": ndot}}
}

var c06Preambles = [][]string{nil, {"#include <stdlib.h>"}, {"#cgo LDFLAGS: -lm", "#include <math.h>\nint f(void);"}}

func c06CtorFor(i int) (hist.Op, string) {
	switch i % 3 {
	case 0:
		return hist.Op{Kind: "newfilepathname", F: 0, A: "a.b/c", B: "c"}, "a.b/c"
	case 1:
		return hist.Op{Kind: "newfilepath", F: 0, A: "x.y/own"}, "x.y/own"
	}
	return hist.Op{Kind: "newfile", F: 0, A: "p"}, ""
}

func c06LayoutCases(r *rand.Rand, t string) []*Case {
	var out []*Case
	// kind combinations for 0, 1 and 2 other imports
	var combos [][]string
	combos = append(combos, nil)
	for _, a := range c06ImpKinds {
		combos = append(combos, []string{a})
	}
	for _, a := range c06ImpKinds {
		for _, b := range c06ImpKinds {
			combos = append(combos, []string{a, b})
		}
	}
	n := 0
	mkImps := func(kinds []string) []c06Imp {
		used := map[string]int{}
		var imps []c06Imp
		for _, k := range kinds {
			imps = append(imps, c06MkImp(k, used[k]))
			used[k]++
		}
		return imps
	}
	for _, kinds := range combos {
		for _, pre := range c06Preambles {
			for cu := 0; cu < 4; cu++ {
				for ci := 0; ci < 3; ci++ {
					ctor, local := c06CtorFor(ci)
					l := &c06Layout{Ctor: ctor, Local: local, Pre: pre, CQual: cu&1 != 0, CAnon: cu&2 != 0, Imps: mkImps(kinds), NoFormat: n%4 == 3}
					if n%2 == 1 {
						l.Prefix = "pkg"
					}
					n++
					out = append(out, c06LayoutCase(r, l, "layout"))
				}
			}
		}
	}
	// 3 and 4 other imports, drawn
	for i, m := 0, tier(t, 600, 20000); i < m; i++ {
		var kinds []string
		for k := 3 + r.Intn(2); k > 0; k-- {
			kinds = append(kinds, pick(r, c06ImpKinds))
		}
		ctor, local := c06CtorFor(r.Intn(3))
		cu := r.Intn(4)
		l := &c06Layout{Ctor: ctor, Local: local, Pre: c06Preambles[r.Intn(3)], CQual: cu&1 != 0, CAnon: cu&2 != 0, Imps: mkImps(kinds), NoFormat: r.Intn(4) == 0}
		if r.Intn(2) == 0 {
			l.Prefix = pick(r, prefixPool)
		}
		out = append(out, c06LayoutCase(r, l, "layout"))
	}
	return out
}

// ---- pkg-names ----

type c06PkgName struct{ name, shape string }

var c06PkgNames = []c06PkgName{
	{"c_test", "ends-in-_test"}, {"integration_test", "ends-in-_test"}, {"x_test", "ends-in-_test"}, {"_test", "ends-in-_test"}, {"test", "test"}, {"c_Test", "near-_test"}, {"c_tests", "near-_test"},
	{"main", "main"}, {"p", "plain"}, {"c", "last-element-of-the-path"},
	{"string", "predeclared"}, {"nil", "predeclared"}, {"len", "predeclared"}, {"init", "init"},
	{"types", "keyword-like"}, {"func_", "keyword-like"}, {"go2", "keyword-like"}, {"Type", "keyword-like"},
	{"a1_b2", "digits+underscores"}, {"_x", "digits+underscores"}, {"x9", "digits+underscores"}, {"p_", "digits+underscores"},
	{"fmt", "equals-an-import-name(std)"}, {"guess", "equals-an-import-name(guessed)"}, {"al0", "equals-an-import-name(alias)"}, {"nm0", "equals-an-import-name(ImportName)"},
	{"C", "C"}, {"été", "unicode"},
}

// local paths for NewFilePath whose last element has the shapes above (the package name is
// derived from it); kept only if NewFilePath makes a file that renders (checked at run time:
// a derived name that is a keyword makes `package func`, the caller's choice).
var c06NameyLocals = []string{"a.b/c_test", "a.b/integration_test", "x/main", "a.b/x_test", "q/types", "a.b/go2", "a.b/a1_b2", "x.y/string", "x/init", "a.b/c-test", "a.b/c.test", "x/test"}

func c06PkgNameCases(r *rand.Rand, t string) []*Case {
	var out []*Case
	var locals []string
	for _, p := range c06NameyLocals {
		obs := hist.NewWorld().Exec(hist.History{{Kind: "newfilepath", F: 0, A: p}, {Kind: "render", F: 0}})
		if len(obs) == 1 && obs[0].Kind == "write" {
			locals = append(locals, p)
		}
	}
	n := 0
	one := func(ctor hist.Op, local, shape string, name string) {
		variants := tier(t, 4, 12)
		for v := 0; v < variants; v++ {
			l := &c06Layout{Ctor: ctor, Local: local, Tags: []string{"pkgname=" + shape}, NoFormat: n%4 == 3}
			if n%2 == 1 {
				l.Prefix = pick(r, prefixPool)
			}
			// what else the file imports: the imports whose names the package name may equal, a dot-import
			switch v % 4 {
			case 0:
				l.Imps = []c06Imp{c06MkImp("dot", 0)}
			case 1:
				l.Imps = []c06Imp{c06MkImp("std", 0), c06MkImp("plain", 0), c06MkImp("alias", 0), c06MkImp("name", 0)}
			case 2:
				l.Imps = []c06Imp{c06MkImp("dot", 0), c06MkImp("plain", 0), c06MkImp("dot", 1)}
			}
			if v%3 == 2 {
				l.Pre = c06Preambles[1]
				l.CQual = v%2 == 0
			}
			seen := map[string]bool{local: true, "C": true, "": true}
			for _, im := range l.Imps {
				seen[im.Path] = true
			}
			add := func(p string, tag string) {
				if !seen[p] {
					seen[p] = true
					l.Extra = append(l.Extra, p)
					l.Tags = append(l.Tags, tag)
				}
			}
			// the package name used as a PATH is an ordinary path (also for NewFile, whose path is empty)
			if name != "" && r.Intn(3) > 0 {
				add(name, "ref=package-name-as-path")
			}
			if local != "" {
				nm := nearMisses(local)
				for _, k := range r.Perm(len(nm))[:2] {
					add(nm[k], "ref=near-miss-of-the-own-path")
				}
				if name != "" && r.Intn(2) == 0 {
					add(local+"/"+name, "ref=near-miss-of-the-own-path")
				}
				l.Tags = append(l.Tags, "ref=own-path")
			}
			n++
			out = append(out, c06LayoutCase(r, l, "pkg-names"))
		}
	}
	for _, pn := range c06PkgNames {
		for _, local := range []string{"a.b/c", "example.com/mod/pkg"} {
			one(hist.Op{Kind: "newfilepathname", F: 0, A: local, B: pn.name}, local, pn.shape, pn.name)
		}
		one(hist.Op{Kind: "newfile", F: 0, A: pn.name}, "", pn.shape, pn.name)
	}
	for _, p := range locals {
		one(hist.Op{Kind: "newfilepath", F: 0, A: p}, p, "derived-from:"+lastElem(p), "")
	}
	return out
}
