package props

import (
	"math/rand"
	"strings"
	"testing"

	"verifharness/hist"
	"verifharness/term"
)

// the history of the retained-pointer demo: f.Add(func f() { return List(hole) }); Render;
// Render; hole.List(42, errors.New()); Render; imports
func c08fTestSpec() (*c08fSpec, *term.Stmt) {
	hole := term.S()
	fn := term.S(term.Named("Func"), term.Id("f"), term.G("Params"), term.G("Block", term.S(term.G("Return", term.S(term.G("List", hole))))))
	sp := &c08fSpec{Holes: []*c08fHole{{St: hole}}}
	sp.Steps = []c08fStep{
		{Kind: "set", Op: hist.Op{Kind: "newfile", F: 0, A: "p"}},
		{Kind: "fadd", St: fn},
		{Kind: "render"}, {Kind: "render"},
		{Kind: "ext", St: hole, Items: []term.Node{term.G("List", term.S(term.Lit(42)), term.S(term.Qual("errors", "New"), term.G("Call")))}},
		{Kind: "render"},
		{Kind: "rcode", St: fn},
		{Kind: "imports"},
	}
	return sp, hole
}

func TestC08FillOracleOnHandMadeOutputs(t *testing.T) {
	sp, _ := c08fTestSpec()
	h, views := c08fBuild(sp)
	got := ExecFresh(h)
	if len(got) != len(views) {
		t.Fatalf("%d observations for %d views", len(got), len(views))
	}
	var renders []int
	for i, v := range views {
		if v.Kind == "render" {
			renders = append(renders, i)
		}
	}
	if len(renders) != 3 || !views[renders[1]].Repeat || views[renders[2]].Repeat {
		t.Fatalf("views: %+v", views)
	}
	if m := c08fTwinOracle(sp, views, got, true); m != "" {
		t.Fatalf("oracle rejects the real implementation: %s", m)
	}
	first, last := got[renders[0]].Out, got[renders[2]].Out
	if !strings.Contains(first, "return\n") || !strings.Contains(last, "return 42, errors.New()") || !strings.Contains(last, `import "errors"`) {
		t.Fatalf("unexpected outputs %q / %q", first, last)
	}
	bad := func(i int, o hist.Obs, want string) {
		t.Helper()
		g := append([]hist.Obs{}, got...)
		g[i] = o
		if m := c08fTwinOracle(sp, views, g, true); !strings.Contains(m, want) {
			t.Errorf("verdict %q does not contain %q", m, want)
		}
	}
	// the render after the extension still shows the null hole (what a memoised null check gives)
	bad(renders[2], got[renders[0]], "built from scratch")
	// the repeated render differs
	bad(renders[1], hist.Obs{Kind: "write", Out: first + "\n"}, "results differ")
	// a render fails
	bad(renders[2], hist.Obs{Kind: "fmterr", Out: "x"}, "did not render")
	// the import table lost the path
	bad(len(got)-1, hist.Obs{Kind: "imports"}, "built from scratch")
	// the comparison with the model leaves the replayed renders out, and nothing else
	if m := c08fCompare(views, got, got); m != "" {
		t.Errorf("compare: %s", m)
	}
	g := append([]hist.Obs{}, got...)
	for i, v := range views {
		if v.Kind == "skip" {
			g[i] = hist.Obs{Kind: "write", Out: "anything"}
		}
	}
	if m := c08fCompare(views, got, g); m != "" {
		t.Errorf("compare looks at a replayed render: %s", m)
	}
	g[renders[2]] = got[renders[0]]
	if m := c08fCompare(views, got, g); !strings.Contains(m, "differs") {
		t.Errorf("compare accepts a stale render: %q", m)
	}
	// executing the history again starts from the null hole again
	again := ExecFresh(h)
	if again[renders[0]].Out != first || again[renders[2]].Out != last {
		t.Errorf("second execution differs")
	}
}

func TestC08FillOnTheImplementation(t *testing.T) {
	r := rand.New(rand.NewSource(8))
	nt, sites := 0, map[string]bool{}
	for i := 0; i < 400; i++ {
		c := c08FillCase(r, i%2)
		if m := (c08{}).Oracle(c, ExecFresh(c.Hist)); m != "" {
			t.Fatalf("oracle rejects the real implementation (case %d): %s\n%s", i, m, c.Hist.Sexp())
		}
		if c.NonTrivial {
			nt++
		}
		for _, tg := range c.Tags {
			if strings.HasPrefix(tg, "site=") {
				sites[tg] = true
			}
		}
		if (c08{}).Shrink(c) != nil {
			t.Fatalf("a nested-fill case must not be shrunk by dropping operations")
		}
	}
	if nt < 300 {
		t.Errorf("only %d of 400 cases render a hole, extend it and render again", nt)
	}
	for _, s := range []string{"site=List", "site=Union", "site=Types", "site=Custom-no-delimiters", "site=dict-key", "site=dict-value", "site=Call", "site=Block", "site=Params", "site=Values", "site=statement-item"} {
		if !sites[s] {
			t.Errorf("no hole at %s", s)
		}
	}
}
