package props

import (
	"math/rand"
	"strings"
	"testing"

	"verifharness/hist"
	"verifharness/term"
)

var c08TestRender = hist.Op{Kind: "render", F: 0}

func c08TestCase(paths []string, ops ...hist.Op) *Case {
	h := append(hist.History{{Kind: "newfile", F: 0, A: "p"}}, ops...)
	return &Case{Hist: h, Meta: map[string]interface{}{"c08": &c08info{Paths: paths}}}
}

func c08Writes(outs ...string) []hist.Obs {
	var obs []hist.Obs
	for _, o := range outs {
		obs = append(obs, hist.Obs{Kind: "write", Out: o, Writes: 1})
	}
	return obs
}

func c08Want(t *testing.T, c *Case, got []hist.Obs, want string) {
	t.Helper()
	m := (c08{}).Oracle(c, got)
	if want == "" && m != "" {
		t.Fatalf("oracle rejects a good sequence: %s", m)
	}
	if want != "" && !strings.Contains(m, want) {
		t.Fatalf("oracle verdict %q does not contain %q", m, want)
	}
}

const (
	c08Good   = "package p\n\nimport d \"a.b/d\"\n\nvar _ = d.V0_1\n"
	c08Bare   = "package p\n\nimport d \"a.b/d\"\n\nvar _ = V0_1\n"
	c08Dot    = "package p\n\nimport . \"a.b/d\"\n\nvar _ = V0_1\n"
	c08Rename = "package p\n\nimport d1 \"a.b/d\"\n\nvar _ = d1.V0_1\n"
)

func TestC08OracleOnHandMadeOutputs(t *testing.T) {
	d := []string{"a.b/d"}
	ref := term.S(term.Named("Var"), term.Id("_"), term.Op("="), term.Qual("a.b/d", "V0_1"))
	add := hist.Op{Kind: "fadd", F: 0, Code: ref}
	dot := hist.Op{Kind: "importalias", F: 0, A: "a.b/d", B: "."}

	// 1. repeated render
	twice := c08TestCase(d, add, c08TestRender, c08TestRender)
	c08Want(t, twice, c08Writes(c08Good, c08Good), "")
	c08Want(t, twice, c08Writes(c08Good, strings.Replace(c08Good, "var _", "var  _", 1)), "but the bytes differ")
	c08Want(t, twice, []hist.Obs{{Kind: "write", Out: c08Good}, {Kind: "panic", Msg: "runtime error: index out of range"}}, "did not render")
	c08Want(t, twice, []hist.Obs{{Kind: "write", Out: c08Good}, {Kind: "fmterr", Out: "x"}}, "did not render")
	c08Want(t, twice, c08Writes(c08Good), "has no observation")
	// the same bytes are NOT required when something happened in between
	between := c08TestCase(d, add, c08TestRender, hist.Op{Kind: "noformat", F: 0, Flag: true}, c08TestRender)
	c08Want(t, between, c08Writes(c08Good, "package p\n\nimport d \"a.b/d\"\n\n\nvar _ = d.V0_1"), "")

	// 2. names are stable: the outputs of the two fixed defects, and a renaming
	hinted := c08TestCase(d, add, c08TestRender, dot, c08TestRender)
	c08Want(t, hinted, c08Writes(c08Good, c08Good), "")
	c08Want(t, hinted, c08Writes(c08Good, c08Bare), "is written as a bare identifier by operation 4")
	c08Want(t, hinted, c08Writes(c08Good, c08Dot), "is written as a bare identifier by operation 4")
	c08Want(t, hinted, c08Writes(c08Good, c08Rename), "is written as d1.X by operation 4")
	c08Want(t, hinted, c08Writes(c08Good, "package p\n\nimport d \"a.b/d\"\n\nvar _ = d.V0_1\nvar _ = V0_2\n"), "both d and bare")
	dotFirst := c08TestCase(d, dot, add, c08TestRender, hist.Op{Kind: "importalias", F: 0, A: "a.b/d", B: "x"}, c08TestRender)
	c08Want(t, dotFirst, c08Writes(c08Dot, c08Dot), "")
	c08Want(t, dotFirst, c08Writes(c08Dot, strings.Replace(c08Good, "d.V0_1", "..V0_1", 1)), "does not parse")
	c08Want(t, dotFirst, c08Writes(c08Dot, c08Good), "is written as d.X by operation 5")
	c08Want(t, dotFirst, c08Writes(c08Dot, c08Bare), "does not dot-import it")

	// the import block of a later File.Render declares what a fragment wrote
	frag := term.S(term.Id("_"), term.Op("="), term.Qual("a.b/d", "V0_1"))
	fr := c08TestCase(d, hist.Op{Kind: "rcode", F: 0, Code: frag}, c08TestRender)
	c08Want(t, fr, c08Writes("_ = d.V0_1", "package p\n\nimport d \"a.b/d\"\n"), "")
	c08Want(t, fr, c08Writes("_ = d.V0_1", "package p\n"), "does not import it")
	c08Want(t, fr, c08Writes("_ = d.V0_1", "package p\n\nimport x \"a.b/d\"\n"), "declares it as x")
	c08Want(t, fr, c08Writes("_ = d.V0_1", "package p\n\nimport _ \"a.b/d\"\n"), "declares it as _")
	c08Want(t, fr, c08Writes("_ = d.V0_1 +", "package p\n"), "does not parse")
	// Statement.Render has a File of its own: its names say nothing about the File
	pl := c08TestCase(d, hist.Op{Kind: "rplain", Code: frag}, hist.Op{Kind: "rplain", Code: frag}, add, c08TestRender)
	c08Want(t, pl, c08Writes("_ = d.V0_1", "_ = d.V0_1", c08Rename), "")
	c08Want(t, pl, c08Writes("_ = d.V0_1", "_ = d1.V0_1", c08Rename), "but the bytes differ")

	// one qualifier for two paths
	two := []string{"a.b/d", "c.b/d"}
	ref2 := term.S(term.Named("Var"), term.Id("_"), term.Op("="), term.Qual("c.b/d", "V1_2"))
	tc := c08TestCase(two, add, c08TestRender, hist.Op{Kind: "fadd", F: 0, Code: ref2}, c08TestRender)
	c08Want(t, tc, c08Writes(c08Good, "package p\n\nimport (\n\td \"a.b/d\"\n\td1 \"c.b/d\"\n)\n\nvar _ = d.V0_1\nvar _ = d1.V1_2\n"), "")
	c08Want(t, tc, c08Writes(c08Good, "package p\n\nimport (\n\td \"a.b/d\"\n\td \"c.b/d\"\n)\n\nvar _ = d.V0_1\nvar _ = d.V1_2\n"), "written for two paths")

	// an import without alias must be the package's own name
	f := []string{"fmt"}
	reff := term.S(term.Named("Var"), term.Id("_"), term.Op("="), term.Qual("fmt", "V0_1"))
	fc := c08TestCase(f, hist.Op{Kind: "fadd", F: 0, Code: reff}, c08TestRender)
	c08Want(t, fc, c08Writes("package p\n\nimport \"fmt\"\n\nvar _ = fmt.V0_1\n"), "")
	c08Want(t, fc, c08Writes("package p\n\nimport \"fmt\"\n\nvar _ = foo.V0_1\n"), "without alias although its name is fmt")
	fh := c08TestCase(f, hist.Op{Kind: "importname", F: 0, A: "fmt", B: "foo"}, hist.Op{Kind: "fadd", F: 0, Code: reff}, c08TestRender)
	c08Want(t, fh, c08Writes("package p\n\nimport \"fmt\"\n\nvar _ = foo.V0_1\n"), "")
}

// The implementation itself: the regression exemplars and generated histories pass, and
// the generator keeps its promises (length, explicit doubled renders, no Anon of a path
// that an output has already written).
func TestC08OnTheImplementation(t *testing.T) {
	for _, c := range (c08{}).Regressions() {
		if m := (c08{}).Oracle(c, ExecFresh(c.Hist)); m != "" {
			t.Fatalf("regression %s fails: %s", c.Name, m)
		}
	}
	r := rand.New(rand.NewSource(8))
	nt, doubled := 0, 0
	for i := 0; i < 500; i++ {
		c := c08History(r)
		n := len(c.Hist) - 2 // constructor and the closing imports observation
		if n < 2 || n > 12 || c.Hist[len(c.Hist)-2].Kind != "render" {
			t.Fatalf("history of %d operations: %s", n, c.Hist.Sexp())
		}
		got := ExecFresh(c.Hist)
		if m := (c08{}).Oracle(c, got); m != "" {
			t.Fatalf("oracle rejects the implementation: %s\n%s", m, c.Hist.Sexp())
		}
		if c.NonTrivial {
			nt++
		}
		for j := 1; j < len(c.Hist); j++ {
			if c08SameRender(c.Hist[j-1], c.Hist[j]) {
				doubled++
				break
			}
		}
		// Anon only of paths that no earlier output produced with the File contains
		info := c.Meta["c08"].(*c08info)
		oi := 0
		var outs []string
		for _, op := range c.Hist {
			switch op.Kind {
			case "render", "rcode":
				outs = append(outs, got[oi].Out)
				oi++
			case "rplain", "imports":
				oi++
			case "anon":
				for _, a := range op.Strs {
					for k, p := range info.Paths {
						if p != a {
							continue
						}
						for _, o := range outs {
							if strings.Contains(o, "V"+string(rune('0'+k))+"_") {
								t.Fatalf("Anon(%q) after the path was written: %s", a, c.Hist.Sexp())
							}
						}
					}
				}
			}
		}
	}
	if nt < 100 || doubled < 250 {
		t.Fatalf("non-trivial %d, with a doubled render %d of 500", nt, doubled)
	}
}

// Shrinking keeps the constructor and the bookkeeping the oracle needs.
func TestC08Shrink(t *testing.T) {
	c := c08History(rand.New(rand.NewSource(3)))
	cands := (c08{}).Shrink(c)
	if len(cands) != len(c.Hist)-1 {
		t.Fatalf("%d candidates for %d operations", len(cands), len(c.Hist))
	}
	for _, s := range cands {
		if len(s.Hist) != len(c.Hist)-1 || s.Hist[0].Kind != c.Hist[0].Kind || s.Meta["c08"] != c.Meta["c08"] {
			t.Fatal("bad candidate")
		}
		if m := (c08{}).Oracle(s, ExecFresh(s.Hist)); m != "" {
			t.Fatalf("a shrunk history fails on the implementation: %s\n%s", m, s.Hist.Sexp())
		}
	}
}

// Checks 3 and 4 and the blank hints, on hand-made outputs.
func TestC08OracleLateHints(t *testing.T) {
	two := []string{"a.b/d", "x.y/z"}
	refD := hist.Op{Kind: "fadd", F: 0, Code: term.S(term.Named("Var"), term.Id("_"), term.Op("="), term.Qual("a.b/d", "V0_1"))}
	refZ := hist.Op{Kind: "fadd", F: 0, Code: term.S(term.Named("Var"), term.Id("_"), term.Op("="), term.Qual("x.y/z", "V1_2"))}
	file := func(imports, body string) string { return "package p\n\nimport (\n" + imports + ")\n\n" + body }

	// a blank hint (and a second, ordinary one) after the path was written under a name
	blank := c08TestCase(two, refD, refZ, c08TestRender,
		hist.Op{Kind: "importalias", F: 0, A: "a.b/d", B: "_"}, hist.Op{Kind: "importname", F: 0, A: "a.b/d", B: "kv"}, c08TestRender)
	g := file("\td \"a.b/d\"\n\tz \"x.y/z\"\n", "var _ = d.V0_1\nvar _ = z.V1_2\n")
	c08Want(t, blank, c08Writes(g, g), "")
	c08Want(t, blank, c08Writes(g, file("\t_ \"a.b/d\"\n\tz \"x.y/z\"\n", "var _ = d.V0_1\nvar _ = z.V1_2\n")), "declares it as _")
	c08Want(t, blank, c08Writes(g, file("\t_ \"a.b/d\"\n\tz \"x.y/z\"\n", "var _ = _.V0_1\nvar _ = z.V1_2\n")), "is written as _.X by operation 6")
	c08Want(t, blank, c08Writes(g, file("\t\"a.b/d\"\n\tz \"x.y/z\"\n", "var _ = kv.V0_1\nvar _ = z.V1_2\n")), "is written as kv.X by operation 6")
	c08Want(t, blank, c08Writes(g, file("\tkv \"a.b/d\"\n\tz \"x.y/z\"\n", "var _ = d.V0_1\nvar _ = z.V1_2\n")), "declares it as kv")

	// Anon(a.b/d) + reference to x.y/z; render; reference to a.b/d; render
	up := c08TestCase(two, hist.Op{Kind: "anon", F: 0, Strs: []string{"a.b/d", "q.r/s"}}, refZ, c08TestRender, refD, c08TestRender)
	before := file("\t_ \"a.b/d\"\n\t_ \"q.r/s\"\n\tz \"x.y/z\"\n", "var _ = z.V1_2\n")
	after := file("\td \"a.b/d\"\n\t_ \"q.r/s\"\n\tz \"x.y/z\"\n", "var _ = z.V1_2\nvar _ = d.V0_1\n")
	c08Want(t, up, c08Writes(before, after), "")
	c08Want(t, up, c08Writes(before, file("\t_ \"a.b/d\"\n\t_ \"q.r/s\"\n\tz \"x.y/z\"\n", "var _ = z.V1_2\nvar _ = d.V0_1\n")), "declares it as _")
	c08Want(t, up, c08Writes(before, file("\td \"a.b/d\"\n\tz \"x.y/z\"\n", "var _ = z.V1_2\nvar _ = d.V0_1\n")), "no longer imports that path")
	c08Want(t, up, c08Writes(before, file("\td \"a.b/d\"\n\ts \"q.r/s\"\n\tz \"x.y/z\"\n", "var _ = z.V1_2\nvar _ = d.V0_1\n")), "although no output has written the path")
	c08Want(t, up, c08Writes(before, file("\td \"a.b/d\"\n\t_ \"q.r/s\"\n\tz1 \"x.y/z\"\n", "var _ = z1.V1_2\nvar _ = d.V0_1\n")), "is written as z1.X by operation 5")
	// another line of the block is rewritten although its path is not rendered by the second output
	up2 := c08TestCase(two, hist.Op{Kind: "anon", F: 0, Strs: []string{"a.b/d"}}, hist.Op{Kind: "rcode", F: 0, Code: refZ.Code}, c08TestRender, hist.Op{Kind: "prefix", F: 0, A: ""}, c08TestRender)
	c08Want(t, up2, c08Writes("var _ = z.V1_2", file("\t_ \"a.b/d\"\n\tz \"x.y/z\"\n", ""), file("\t_ \"a.b/d\"\n\tz \"x.y/z\"\n", "")), "")
	c08Want(t, up2, c08Writes("var _ = z.V1_2", file("\t_ \"a.b/d\"\n\tz \"x.y/z\"\n", ""), file("\t_ \"a.b/d\"\n\tz2 \"x.y/z\"\n", "")), "declares it as z2")

	// a preamble and one new import between two File.Renders
	pre := c08TestCase(two, refD, c08TestRender, hist.Op{Kind: "cgo", F: 0, A: "#include <a.h>\n"}, refZ, c08TestRender)
	one := "package p\n\nimport d \"a.b/d\"\n\nvar _ = d.V0_1\n"
	withC := "package p\n\nimport (\n\td \"a.b/d\"\n\tz \"x.y/z\"\n)\n\n/*\n#include <a.h>\n*/\nimport \"C\"\n\nvar _ = d.V0_1\nvar _ = z.V1_2\n"
	c08Want(t, pre, c08Writes(one, withC), "")
	c08Want(t, pre, c08Writes(one, strings.Replace(withC, "*/\nimport \"C\"", "*/\n\nimport \"C\"", 1)), "no comment directly above")
	c08Want(t, pre, c08Writes(one, strings.Replace(withC, "/*\n#include <a.h>\n*/\nimport \"C\"\n\n", "", 1)), "the import of \"C\" is missing")
	c08Want(t, pre, c08Writes(one, "package p\n\nimport (\n\t\"C\"\n\td \"a.b/d\"\n\tz \"x.y/z\"\n)\n\nvar _ = d.V0_1\nvar _ = z.V1_2\n"), "shares its declaration")
	c08Want(t, pre, c08Writes(one, "package p\n\nimport z \"x.y/z\"\n\n/*\n#include <a.h>\n*/\nimport \"C\"\n\nvar _ = d.V0_1\nvar _ = z.V1_2\n"), "does not import it")
	c08Want(t, pre, c08Writes(one, "package p\n\nimport (\n\td \"a.b/d\"\n\tz \"x.y/z\"\n)\n\n// #include <b.h>\nimport \"C\"\n\nvar _ = d.V0_1\nvar _ = z.V1_2\n"), "not the preamble in the order given")

	// the stream holds on the unchanged tree and produces the three families
	r := rand.New(rand.NewSource(8))
	n := map[string]int{}
	for i := 0; i < 600; i++ {
		c := c08LateHints(r, i%3)
		for _, tg := range c.Tags {
			n[tg]++
		}
		if m := (c08{}).Oracle(c, hist.NewWorld().Exec(c.Hist)); m != "" {
			t.Fatalf("oracle fails on the unchanged tree: %s\n%s", m, c.Hist.Sexp())
		}
	}
	for _, tg := range []string{"blank-hint-after-render", "anon-upgraded-between-renders", "preamble-added-between-renders"} {
		if n[tg] != 200 {
			t.Errorf("%s: %d cases", tg, n[tg])
		}
	}
	if n["blank-hint+other-later-hint"] == 0 || n["C-in-block-before-preamble"] == 0 || n["new-import=reference"] == 0 {
		t.Errorf("tags: %v", n)
	}
}
