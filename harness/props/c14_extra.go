package props

import (
	"fmt"
	"math/rand"
	"reflect"
	"sort"

	"github.com/dave/jennifer/jen"

	"verifharness/term"
)

// Two more checks of the C14 oracle (cases of the streams api-enum and api), both deciding
// "all forms render identically; the Group form additionally appends the new statement to
// the group and returns it" on concrete inputs that the other checks do not reach:
//
//	enclosing  a callback (Do, ...Func, CustomFunc, Lit...Func, DictFunc) that ALSO adds items
//	           to the group ENCLOSING the construct.  g.X(cb) must behave like g.Add(jen.X(cb))
//	           and like g.Add(new(jen.Statement).X(cb)): the callback runs inside the
//	           constructing call, i.e. BEFORE the new statement is appended, so what it adds
//	           to g comes first in all three.
//	aliasing   the caller's argument slice, with spare capacity, handed as args... to two calls
//	           of the same form, each result extended by chaining; then the caller overwrites
//	           args[0] and appends to args.  The chained tokens of one statement must never
//	           show up in (or vanish from) the other, and whatever a form shows of the
//	           caller's later writes, all three forms must show the same.

// c14GroupForm yields the *Group method (a variable so that the tests can put a defective
// Group form in its place: the implementation cannot be changed from a test).
var c14GroupForm = func(g *jen.Group, name string) reflect.Value {
	return reflect.ValueOf(g).MethodByName(name)
}

var c14FormNames = []string{"Group", "function", "method"}

// c14FormCall calls construct name in the given form (0 Group method of g, 1 package
// function, 2 method of a fresh *Statement); slice: the last argument is the variadic slice
// itself (f(args...)), not a list of values.
func c14FormCall(form int, g *jen.Group, name string, in []reflect.Value, slice bool) (ret *jen.Statement, perr string) {
	var f reflect.Value
	switch form {
	case 0:
		f = c14GroupForm(g, name)
	case 1:
		if fn, ok := c14Funcs[name]; ok {
			f = reflect.ValueOf(fn)
		}
	default:
		f = reflect.ValueOf(new(jen.Statement)).MethodByName(name)
	}
	if !f.IsValid() || f.Kind() != reflect.Func {
		return nil, fmt.Sprintf("%s: no %s form", name, c14FormNames[form])
	}
	defer func() {
		if p := recover(); p != nil {
			perr = fmt.Sprintf("%s form of %s panicked while building: %v", c14FormNames[form], name, p)
		}
	}()
	if slice {
		return c14Ret(f.CallSlice(in)), ""
	}
	return c14Ret(f.Call(in)), ""
}

// ---------------------------------------------------------------- enclosing group

// c14WrapCallbacks: every callback among the argument values additionally adds one item to
// enc before and one after its own work.
func c14WrapCallbacks(in []reflect.Value, enc *jen.Group) []reflect.Value {
	out := make([]reflect.Value, len(in))
	for i, v := range in {
		out[i] = v
		if v.Kind() != reflect.Func || v.IsNil() {
			continue
		}
		orig := v
		out[i] = reflect.MakeFunc(v.Type(), func(args []reflect.Value) []reflect.Value {
			enc.Add(jen.Id("c14hoistA")) // Group.Add
			res := orig.Call(args)
			enc.Id("c14hoistB") // a Group form of another construct
			return res
		})
	}
	return out
}

// c14EnclosingCheck: construct name (with at least one callback parameter) on the argument
// list specs, inside jen.BlockFunc(func(g){ g.Id("c14pre"); <form>; g.Id("c14post") }) with
// callbacks that also add to g.  <form> is g.X(args) | g.Add(jen.X(args)) |
// g.Add(new(jen.Statement).X(args)).  The returned statement gets one more token afterwards
// (c14own) so that its position in the block is visible even when it renders empty.
func c14EnclosingCheck(name string, specs []c14Arg, seed int64) string {
	if !c14HasCallback(specs) {
		return ""
	}
	var blocks [3]c14Res
	ptrErr := ""
	for form := 0; form < 3; form++ {
		inst := c14NewInst()
		inst.seed = seed
		var ret *jen.Statement
		var perr string
		var before, after int
		var last uintptr
		var fieldOK bool
		blk := jen.BlockFunc(func(g *jen.Group) {
			g.Id("c14pre")
			in := c14WrapCallbacks(inst.values(specs), g)
			before, _, fieldOK = term.GroupItems(g)
			ret, perr = c14FormCall(form, g, name, in, false)
			if perr == "" && ret != nil && form != 0 {
				g.Add(ret)
			}
			after, last, _ = term.GroupItems(g)
			g.Id("c14post")
		})
		if perr != "" {
			return perr
		}
		if ret == nil {
			return fmt.Sprintf("%s: the %s form returned nil", name, c14FormNames[form])
		}
		for _, n := range inst.Counters {
			if *n != 1 {
				return fmt.Sprintf("%s (%s form, callback that also adds to the enclosing group): a callback ran %d times inside the constructing call", name, c14FormNames[form], *n)
			}
		}
		if fieldOK {
			ncb := len(inst.Counters)
			if after != before+2*ncb+1 {
				return fmt.Sprintf("%s (%s form): the enclosing group grew by %d items, want %d (two per callback, then the new statement)", name, c14FormNames[form], after-before, 2*ncb+1)
			}
			if form == 0 && last != reflect.ValueOf(ret).Pointer() {
				ptrErr = fmt.Sprintf("%s: after g.%s(callback that adds items to g) the LAST item of g is not the statement the call returned: the Group form appended its statement before running the callback (it must behave like g.Add(jen.%s(..)))", name, name, name)
			}
		}
		ret.Id("c14own")
		blocks[form] = c14Render(blk)
	}
	if ptrErr != "" {
		return fmt.Sprintf("%s\n BlockFunc{pre; g.%s(f); post}:          %v\n BlockFunc{pre; g.Add(jen.%s(f)); post}: %v", ptrErr, name, blocks[0], name, blocks[1])
	}
	for form := 1; form < 3; form++ {
		if blocks[form] != blocks[0] {
			return fmt.Sprintf("%s with a callback that also adds items to the enclosing group: g.%s(f) and the %s form added with g.Add render differently:\n Group form:    %v\n %s form: %v", name, name, c14FormNames[form], blocks[0], c14FormNames[form], blocks[form])
		}
	}
	// the explicit expectation: what the callback hoists comes before the new statement
	inst := c14NewInst()
	inst.seed = seed
	ref, perr := c14FormCall(2, nil, name, inst.values(specs), false)
	if perr != "" || ref == nil {
		return fmt.Sprintf("%s: reference build failed: %s", name, perr)
	}
	items := []jen.Code{jen.Id("c14pre")}
	for range inst.Counters {
		items = append(items, jen.Id("c14hoistA"), jen.Id("c14hoistB"))
	}
	items = append(items, ref.Id("c14own"), jen.Id("c14post"))
	if want := c14Render(jen.Block(items...)); blocks[0] != want {
		return fmt.Sprintf("%s with a callback that also adds items to the enclosing group: the callback must run before the new statement is appended:\n got:  %v\n want: %v", name, blocks[0], want)
	}
	return ""
}

// c14EnclosingDict: DictFunc has no forms of its own (it returns a Dict), but its callback
// runs while the arguments of the enclosing construct are evaluated: Values(DictFunc(f)) in
// the three forms, f adding to the enclosing group.
func c14EnclosingDict() string {
	var blocks [3]c14Res
	for form := 0; form < 3; form++ {
		runs := 0
		var perr string
		blk := jen.BlockFunc(func(g *jen.Group) {
			g.Id("c14pre")
			d := jen.DictFunc(func(d jen.Dict) {
				runs++
				g.Add(jen.Id("c14hoistA"))
				d[jen.Id("k")] = jen.Lit(1)
				g.Id("c14hoistB")
			})
			var ret *jen.Statement
			ret, perr = c14FormCall(form, g, "Values", []reflect.Value{c14CodeValue(d)}, false)
			if perr == "" && form != 0 {
				g.Add(ret)
			}
			g.Id("c14post")
		})
		if perr != "" {
			return perr
		}
		if runs != 1 {
			return fmt.Sprintf("DictFunc ran its callback %d times", runs)
		}
		blocks[form] = c14Render(blk)
		for k := 0; k < 2; k++ {
			if r := c14Render(blk); r != blocks[form] || runs != 1 {
				return fmt.Sprintf("DictFunc: render %d differs or ran the callback again (%d runs): %v vs %v", k+2, runs, r, blocks[form])
			}
		}
	}
	want := c14Render(jen.Block(jen.Id("c14pre"), jen.Id("c14hoistA"), jen.Id("c14hoistB"), jen.Values(jen.Dict{jen.Id("k"): jen.Lit(1)}), jen.Id("c14post")))
	for form := 0; form < 3; form++ {
		if blocks[form] != want {
			return fmt.Sprintf("Values(DictFunc(f)), f adding to the enclosing group, %s form:\n got:  %v\n want: %v", c14FormNames[form], blocks[form], want)
		}
	}
	return ""
}

// c14CallbackConstructs: the constructs with a callback parameter.
func c14CallbackConstructs() []string {
	var out []string
	fn := reflect.Func
	for _, name := range c14ConstructNames() {
		mt := c14Methods(c14StmtT)[name]
		for i := 1; i < mt.NumIn(); i++ {
			if mt.In(i).Kind() == fn {
				out = append(out, name)
				break
			}
		}
	}
	return out
}

// ---------------------------------------------------------------- argument-slice aliasing

// c14VariadicConstructs: Add and every construct whose last parameter is ...Code.
func c14VariadicConstructs() []string {
	var out []string
	for _, name := range c14ConstructNames() {
		mt := c14Methods(c14StmtT)[name]
		if mt.IsVariadic() && mt.In(mt.NumIn()-1).Elem() == c14CodeT {
			out = append(out, name)
		}
	}
	sort.Strings(out)
	return out
}

// the tokens chained to the two statements built from one argument slice
func c14Chain1(s *jen.Statement) *jen.Statement { return s.Call() }
func c14Chain2(s *jen.Statement) *jen.Statement { return s.Index(jen.Lit(0)) }
func c14Chain3(s *jen.Statement) *jen.Statement { return s.Dot("x") }
func c14Chain4(s *jen.Statement) *jen.Statement { return s.Op("++") }

// c14AliasSteps: the observations of one run: renders of the first statement, the second
// statement and the block holding both, after (A) construction + first chaining, (B) the
// caller overwrote args[0], (C) the caller appended to args, (D) more chaining, (E) the
// caller filled the rest of the spare capacity.
var c14AliasSteps = []string{
	"A first/after X(args...).Call()", "A second/after X(args...).Index(0)", "A block",
	"B first/after args[0] = c14changed", "B second", "B block",
	"C first/after args = append(args, c14appended)", "C second", "C block",
	"D first/after .Dot(x)", "D second/after .Op(++)", "D block",
	"E first/after filling cap(args)", "E second", "E block",
}

// c14AliasRun builds two statements with construct name in one form from the SAME slice
// (len n = len(items), capacity n+k) and plays the caller's actions.  lead yields the values
// of the parameters before the variadic one.  form 3 is the reference: method form on fresh
// literal argument lists (one list per call, no spare capacity), in which the caller's
// writes either never show (changed=false) or show as if the construct kept the caller's
// slice (changed=true: item 0 replaced from step B on; an append never shows).
func c14AliasRun(name string, lead func() []reflect.Value, items []jen.Code, k int, form int, changed bool) ([]c14Res, string) {
	n := len(items)
	args := make([]jen.Code, n, n+k)
	copy(args, items)
	ref := form == 3
	var s1, s2, blk *jen.Statement
	var perr string
	call := func(g *jen.Group) *jen.Statement {
		if perr != "" {
			return nil
		}
		var s *jen.Statement
		var e string
		if ref {
			in := lead()
			for _, it := range args {
				in = append(in, c14CodeValue(it))
			}
			s, e = c14FormCall(2, nil, name, in, false)
		} else {
			s, e = c14FormCall(form, g, name, append(lead(), reflect.ValueOf(args)), true)
		}
		if e == "" && s == nil {
			e = fmt.Sprintf("%s: the %s form returned nil", name, c14FormNames[form%3])
		}
		if e != "" {
			perr = e
			return new(jen.Statement)
		}
		return s
	}
	if form == 0 {
		blk = jen.BlockFunc(func(g *jen.Group) {
			s1 = c14Chain1(call(g))
			s2 = c14Chain2(call(g))
		})
	} else {
		s1 = c14Chain1(call(nil))
		s2 = c14Chain2(call(nil))
		blk = jen.Block(s1, s2)
	}
	if perr != "" {
		return nil, perr
	}
	var out []c14Res
	obs := func() { out = append(out, c14Render(s1), c14Render(s2), c14Render(blk)) }
	rebuild := func() { // reference only: the statements as built from the current list
		t1, t2 := c14Chain1(call(nil)), c14Chain2(call(nil))
		*s1, *s2 = *t1, *t2
	}
	obs() // A
	if n > 0 && (!ref || changed) {
		args[0] = jen.Id("c14changed")
		if ref {
			rebuild()
		}
	}
	obs() // B
	if !ref {
		args = append(args, jen.Id("c14appended"))
	}
	obs() // C
	c14Chain3(s1)
	c14Chain4(s2)
	obs() // D
	if !ref {
		for i := 0; len(args) < cap(args); i++ {
			args = append(args, jen.Id(fmt.Sprintf("c14filled%d", i)))
		}
	}
	obs() // E
	if perr != "" {
		return nil, perr
	}
	return out, ""
}

// c14AliasCheck decides the aliasing clause for one construct, one argument list, one spare
// capacity.
func c14AliasCheck(name string, lead func() []reflect.Value, items []jen.Code, k int) string {
	copyRef, e := c14AliasRun(name, lead, items, k, 3, false)
	if e != "" {
		return e
	}
	aliasRef, e := c14AliasRun(name, lead, items, k, 3, true)
	if e != "" {
		return e
	}
	var runs [3][]c14Res
	what := fmt.Sprintf("%s(args...) twice from one slice with len %d, cap %d", name, len(items), len(items)+k)
	for form := 0; form < 3; form++ {
		r, e := c14AliasRun(name, lead, items, k, form, false)
		if e != "" {
			return e
		}
		runs[form] = r
		for i := range r {
			switch {
			case i < 3 && r[i] != copyRef[i]:
				return fmt.Sprintf("%s, %s form, step %s: the statement does not render like the one built from its own literal argument list (a token chained to one statement leaked into the other):\n got:  %v\n want: %v", what, c14FormNames[form], c14AliasSteps[i], r[i], copyRef[i])
			case r[i] != copyRef[i] && r[i] != aliasRef[i]:
				return fmt.Sprintf("%s, %s form, step %s: renders neither like a statement built from its own copy of the arguments nor like one that keeps the caller's slice:\n got:   %v\n copy:  %v\n alias: %v", what, c14FormNames[form], c14AliasSteps[i], r[i], copyRef[i], aliasRef[i])
			}
		}
	}
	for form := 1; form < 3; form++ {
		for i := range runs[0] {
			if runs[form][i] != runs[0][i] {
				return fmt.Sprintf("%s: the forms are not equivalent under the same caller actions, step %s:\n Group form:    %v\n %s form: %v", what, c14AliasSteps[i], runs[0][i], c14FormNames[form], runs[form][i])
			}
		}
	}
	return ""
}

// c14LeadOf: the values of the parameters before the variadic one (Custom: Options).
func c14LeadOf(specs []c14Arg) func() []reflect.Value {
	return func() []reflect.Value { return c14NewInst().values(specs[:len(specs)-1]) }
}

// c14AliasApi: the aliasing clause on the argument list of an api case (the drawn items,
// also none), spare capacity 1..3 derived from the seed.
func c14AliasApi(name string, specs []c14Arg, seed int64) string {
	if len(specs) == 0 || specs[len(specs)-1].Kind != "codes" {
		return ""
	}
	inst := c14NewInst()
	var items []jen.Code
	for _, it := range specs[len(specs)-1].Items {
		items = append(items, inst.code(it))
	}
	k := 1 + int(uint64(seed)%3)
	return c14AliasCheck(name, c14LeadOf(specs), items, k)
}

// c14AliasEnum: Add and every variadic construct x n = 0..4 items x spare capacity 1..3.
func c14AliasEnum() []string {
	var bad []string
	for _, name := range c14VariadicConstructs() {
		specs, ok := c14GenArgs(rand.New(rand.NewSource(14)), name, c14Methods(c14StmtT)[name], 1)
		if !ok || len(specs) == 0 {
			continue // unknown parameter type: reported by the api case of the construct
		}
	sizes:
		for n := 0; n <= 4; n++ {
			for k := 1; k <= 3; k++ {
				var items []jen.Code
				for i := 0; i < n; i++ {
					if i == 0 {
						items = append(items, jen.Id("a").Dot("b"))
					} else {
						items = append(items, jen.Id(fmt.Sprintf("a%d", i)))
					}
				}
				if e := c14AliasCheck(name, c14LeadOf(specs), items, k); e != "" {
					bad = append(bad, e)
					break sizes
				}
			}
		}
	}
	return bad
}

// c14EnclosingEnum: every construct with a callback parameter on three argument lists, and
// DictFunc.
func c14EnclosingEnum() []string {
	var bad []string
	for _, name := range c14CallbackConstructs() {
		for seed := int64(1); seed <= 3; seed++ {
			specs, ok := c14GenArgs(rand.New(rand.NewSource(seed)), name, c14Methods(c14StmtT)[name], 1)
			if !ok {
				break
			}
			if e := c14EnclosingCheck(name, specs, seed); e != "" {
				bad = append(bad, e)
				break
			}
		}
	}
	if e := c14EnclosingDict(); e != "" {
		bad = append(bad, e)
	}
	return bad
}
