package props

import (
	"math/rand"
	"strings"
	"testing"

	"verifharness/hist"
	"verifharness/term"
)

func TestC13LiveHoldsOnTheImplementation(t *testing.T) {
	r := rand.New(rand.NewSource(13))
	cons := c13Constructs()
	var cases []*Case
	for i := 0; i < 400; i++ {
		cases = append(cases, c13LiveListCase(r, cons))
	}
	for i := 0; i < 150; i++ {
		cases = append(cases, c13LiveProgramCase(r))
	}
	seen := map[string]int{}
	for _, c := range cases {
		got := ExecFresh(c.Hist)
		if m := (c13{}).Oracle(c, got); m != "" {
			t.Fatalf("oracle rejects the implementation: %s\n%s", m, c.Hist.Sexp())
		}
		for _, tg := range c.Tags {
			seen[tg]++
		}
	}
	for _, tg := range []string{"live:tag-became-empty", "live:tag-became-nonempty", "live:dict-became-empty", "live:dict-became-nonempty",
		"live:mutation-before-first-render", "live:mutation-between-renders", "live:one-map-in-several-tags", "live:only-live-items"} {
		if seen[tg] < 10 {
			t.Fatalf("tag %s only %d times", tg, seen[tg])
		}
	}
}

// f(i0, Tag(m), i2) by hand: what an implementation that decides nullness when Tag(m) is
// called would write.
func TestC13LiveOracleOnHandMadeOutputs(t *testing.T) {
	cons := consByName(c13Constructs(), "Call")
	mk := func(init [][2]string, steps ...lvStep) *Case {
		sp := &lvSpec{FileOps: hist.History{{Kind: "newfile", F: 0, A: "p"}, {Kind: "noformat", F: 0, Flag: true}}, Maps: [][][2]string{init}}
		host := term.S(term.Null())
		sp.Hosts = []*lvHost{{St: host, Slots: []lvSlot{{At: 0, Kind: "tag", Idx: 0}}}}
		sp.Roots = []*term.Stmt{term.S(term.G("Call", term.S(term.Id("i0")), host, term.S(term.Id("i2"))))}
		sp.Steps = steps
		pos := []c13LivePos{{Kind: "real"}, {Kind: "tag", Idx: 0}, {Kind: "real"}}
		return c13LiveFinish(sp, "live-list", nil, map[string]interface{}{"cons": cons, "pos": pos})
	}
	file := func(body string) hist.Obs { return hist.Obs{Kind: "write", Out: "package p\n\n\n" + body} }
	render := lvStep{Kind: "render", Way: "file"}
	// emptied after Tag(m): the stale text with its separator
	c := mk([][2]string{{"k", "v"}}, lvStep{Kind: "mut", Clear: true}, render)
	good := ExecFresh(c.Hist)
	if len(good) != 1 || good[0].Out != file("(i0,i2)").Out {
		t.Fatalf("implementation: %v", good)
	}
	if m := (c13{}).Oracle(c, good); m != "" {
		t.Fatalf("correct output rejected: %s", m)
	}
	for _, bad := range []string{"(i0,`k:\"v\"`,i2)", "(i0,,i2)", "(i0,``,i2)", "(i0i2)"} {
		if m := (c13{}).Oracle(c, []hist.Obs{file(bad)}); m == "" {
			t.Fatalf("%q accepted for a tag whose map is empty at render time", bad)
		}
	}
	// filled after Tag(m): still treated as null
	c = mk(nil, lvStep{Kind: "mut", Put: [][2]string{{"json", "a"}, {"db", "b"}}}, render)
	good = ExecFresh(c.Hist)
	if m := (c13{}).Oracle(c, good); m != "" || good[0].Out != file("(i0,`db:\"b\" json:\"a\"`,i2)").Out {
		t.Fatalf("correct output rejected: %s %v", m, good)
	}
	for _, bad := range []string{"(i0,i2)", "(i0,,i2)", "(i0,`json:\"a\"`,i2)", "(i0`db:\"b\" json:\"a\"`,i2)"} {
		if m := (c13{}).Oracle(c, []hist.Obs{file(bad)}); m == "" {
			t.Fatalf("%q accepted for a tag whose map holds db and json at render time", bad)
		}
	}
	// between two renders: the second render repeats the first
	c = mk([][2]string{{"k", "v"}}, render, lvStep{Kind: "mut", Del: []string{"k"}}, render)
	good = ExecFresh(c.Hist)
	if m := (c13{}).Oracle(c, good); m != "" {
		t.Fatalf("correct output rejected: %s", m)
	}
	if m := (c13{}).Oracle(c, []hist.Obs{good[0], good[0]}); !strings.Contains(m, "render 1") {
		t.Fatalf("a second render that repeats the first after the map was emptied: accepted: %q", m)
	}
}
