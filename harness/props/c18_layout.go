package props

import (
	"fmt"
	"math/rand"
	"path"
	"sort"

	"verifharness/hist"
)

// ---- round 7: streams "import-layout" and "dict-key" of C18 ------------------------------------
//
// import-layout   the LAYOUT of the import block a standard-library import has to survive in
//                 (the enumeration of C06's stream layout, c06_layout.go, with std paths and the
//                 C18 oracle): renderImports has separate code for nothing to import, exactly one
//                 import (one line), several (parenthesised block) and - with a cgo preamble - "C"
//                 taken out of the count and written in a declaration of its own.  Enumerated:
//                 (0, 1, 2, 3 std imports) x (no preamble, one block, two blocks) x ("C" not
//                 mentioned, Qual("C", ..), Anon("C"), both) x prefix off/on, for several choices
//                 of the std packages (quick: 5 rotating choices that walk through all of
//                 GOROOT/src, among them packages whose name differs from the last path element;
//                 thorough: every std package as the LONE import of every layout).  The CgoPreamble
//                 / Anon operations come in a drawn order before the body; every case is rendered
//                 twice (c18Case).  "C" itself is traced like the others (reference V<i>, told name
//                 "C": it must be imported, unnamed, and qualify as C).
//
// dict-key        a Qual of a std package as the KEY of a Dict (scenarios of c03_dictkey.go): the
//                 only reference to the package; the colliding package (same declared name or same
//                 last element: every pair of collisionGroups; a user path ending in the name)
//                 registered by an earlier or later statement, as key of another Dict, or as
//                 another key of the same Dict (when neither is registered before: the recorded
//                 finding dict-keys-register-in-map-order - compared with the model on an
//                 order-insensitive projection only, the oracle is the same: whatever numbering,
//                 the qualifier written must be provided by the import line of ITS path).

var c18Preambles = [][]string{nil, {"#cgo LDFLAGS: -lm"}, {"#include <stdlib.h>", "int f(void);"}}

func c18LayoutCases(r *rand.Rand, t string) []*Case {
	var out []*Case
	pkgs := StdPackages()
	if len(pkgs) == 0 {
		return nil
	}
	// packages whose declared name is not the last path element come first in the rotation
	var odd, rest []string
	for _, sp := range pkgs {
		if sp.Name != path.Base(sp.Path) {
			odd = append(odd, sp.Path)
		} else {
			rest = append(rest, sp.Path)
		}
	}
	rot := append(append([]string{"fmt", "text/template"}, odd...), rest...)
	next := 0
	take := func(n int) []string {
		var ps []string
		seen := map[string]bool{}
		for len(ps) < n {
			p := rot[next%len(rot)]
			next++
			if _, ok := GorootName(p); !ok || seen[p] {
				continue
			}
			seen[p] = true
			ps = append(ps, p)
		}
		return ps
	}
	mk := func(std []string, npre int, cqual, canon, prefix bool) *Case {
		setup := withPrefix(prefix)
		var ops hist.History
		if canon {
			ops = append(ops, hist.Op{Kind: "anon", F: 0, Strs: []string{"C"}})
		}
		at := 0
		for _, p := range c18Preambles[npre] {
			at += r.Intn(len(ops) - at + 1)
			ops = append(ops[:at:at], append(hist.History{{Kind: "cgo", F: 0, A: p}}, ops[at:]...)...)
			at++
		}
		setup = append(setup, ops...)
		paths := append([]string{}, std...)
		if cqual {
			k := r.Intn(len(paths) + 1)
			paths = append(paths[:k:k], append([]string{"C"}, paths[k:]...)...)
		}
		cuse := "not-mentioned"
		switch {
		case cqual && canon:
			cuse = "qual+anon"
		case cqual:
			cuse = "qual"
		case canon:
			cuse = "anon"
		}
		inBlock := len(std)
		if npre == 0 && (cqual || canon) {
			inBlock++
		}
		form := "none"
		switch {
		case inBlock == 1:
			form = "single-line"
		case inBlock > 1:
			form = "parenthesised"
		}
		tags := []string{fmt.Sprintf("std-imports=%d", len(std)), fmt.Sprintf("preamble-blocks=%d", npre), "C=" + cuse, "import-block=" + form, "prefix=" + onoff(prefix)}
		if npre > 0 {
			tags = append(tags, fmt.Sprintf("preamble+C-%s+std-imports=%d", cuse, len(std)))
		}
		c := c18Case("import-layout", setup, paths, tags...)
		if cqual {
			c.Meta["told"].(map[string]string)["C"] = "C"
		}
		return c
	}
	for nstd := 0; nstd <= 3; nstd++ {
		for npre := range c18Preambles {
			for cu := 0; cu < 4; cu++ {
				for _, prefix := range []bool{false, true} {
					choices := tier(t, 5, 12)
					if nstd == 0 {
						choices = 1
					}
					for k := 0; k < choices; k++ {
						out = append(out, mk(take(nstd), npre, cu&1 != 0, cu&2 != 0, prefix))
					}
				}
			}
		}
	}
	if t == "thorough" {
		for _, sp := range pkgs {
			for npre := range c18Preambles {
				for cu := 0; cu < 4; cu++ {
					out = append(out, mk([]string{sp.Path}, npre, cu&1 != 0, cu&2 != 0, r.Intn(2) == 0))
				}
			}
		}
	}
	return out
}

// c18DictKeyCases: pairs (a, b) = every ordered pair of every collision group of GOROOT/src and
// (std, user path ending in its name) in both roles; quick: 4 scenarios per pair (rotating, so
// that every scenario meets many pairs) and all 18 for the pairs named in the property's
// description (rand, template, pprof); thorough: every scenario for every pair.
func c18DictKeyCases(r *rand.Rand, t string) []*Case {
	var out []*Case
	type pair struct{ a, b, tag string }
	var pairs []pair
	groups := collisionGroups()
	var keys []string
	for k := range groups {
		keys = append(keys, k)
	}
	sort.Strings(keys)
	for _, k := range keys {
		for _, a := range groups[k] {
			for _, b := range groups[k] {
				if a != b {
					pairs = append(pairs, pair{a, b, "collide=" + k})
				}
			}
		}
	}
	for i, sp := range StdPackages() {
		if t != "thorough" && i%6 != 0 && sp.Path != "net/http" && sp.Path != "fmt" {
			continue
		}
		u := "example.com/u/" + sp.Name
		pairs = append(pairs, pair{sp.Path, u, "collide=user-path"}, pair{u, sp.Path, "collide=user-path"})
	}
	nsc := len(dkScenarios("", "", ""))
	n := 0
	for pi, pr := range pairs {
		full := t == "thorough" || pr.tag == "collide=rand" || pr.tag == "collide=template" || pr.tag == "collide=pprof"
		for si := 0; si < nsc; si++ {
			if !full && (si+pi)%nsc >= 4 && !(si == (pi*7)%nsc) {
				continue
			}
			n++
			unrelated := []string{"os", "strings", "example.com/u/zed", "errors"}[n%4]
			sc := dkScenarios(pr.a, pr.b, unrelated)[si]
			prefix := n%3 == 0
			stmts, paths := dkBuild(sc.Items, func(k int) string { return fmt.Sprintf("V%d", k) })
			h := hist.History{{Kind: "newfile", F: 0, A: "p"}}
			h = append(h, withPrefix(prefix)...)
			for _, st := range stmts {
				h = append(h, hist.Op{Kind: "fadd", F: 0, Code: st})
			}
			weak := dkWeak(sc.Items, func(p string) string {
				if p == pr.a || p == pr.b {
					return "pair"
				}
				return p
			})
			tags := append(dkTags(sc, weak), pr.tag, "prefix="+onoff(prefix))
			if weak {
				// one render only: which of the two gets the number is decided anew by every render
				h = append(h, hist.Op{Kind: "render", F: 0}, hist.Op{Kind: "imports", F: 0})
			} else {
				h = append(h, hist.Op{Kind: "render", F: 0}, hist.Op{Kind: "render", F: 0}, hist.Op{Kind: "imports", F: 0})
				tags = append(tags, "rendered-twice")
			}
			meta := map[string]interface{}{"paths": paths, "told": map[string]string{}}
			if weak {
				meta["weak"] = true
			}
			c := &Case{Hist: h, Stream: "dict-key", Tags: tags, Meta: meta}
			// NonTrivial (measured): a Qual of a path with a package clause in GOROOT/src is a Dict key
			for _, it := range sc.Items {
				for _, kv := range it.Pairs {
					if _, ok := GorootName(kv.K); ok {
						c.NonTrivial = true
					}
				}
			}
			out = append(out, c)
		}
	}
	return out
}
