package props

import (
	"math/rand"
	"strings"
	"testing"

	"verifharness/hist"
)

func TestC18StdPackages(t *testing.T) {
	pkgs := StdPackages()
	if len(pkgs) < 150 {
		t.Fatalf("only %d std packages found", len(pkgs))
	}
	by := map[string]StdPkg{}
	for _, p := range pkgs {
		by[p.Path] = p
		if strings.Contains("/"+p.Path+"/", "/internal/") || strings.Contains("/"+p.Path+"/", "/vendor/") || strings.HasPrefix(p.Path, "cmd/") || p.Path == "builtin" || p.Name == "main" || p.Name == "" {
			t.Errorf("%q (%s) must not be enumerated", p.Path, p.Name)
		}
	}
	for path, name := range map[string]string{"fmt": "fmt", "math/rand": "rand", "crypto/rand": "rand", "math/rand/v2": "rand", "text/template": "template", "net/http/pprof": "pprof", "unsafe": "unsafe"} {
		if by[path].Name != name || !by[path].Default {
			t.Errorf("%q: got %+v, want name %s", path, by[path], name)
		}
	}
	// the clause scan and go/build (goroot.go) agree wherever both have an answer
	for p, n := range StdNames {
		if got, ok := GorootName(p); !ok || got != n {
			t.Errorf("%q: go/build says %s, clause scan says %s (%v)", p, n, got, ok)
		}
		if cn := clauseName(c18Src + "/" + p); cn != n {
			t.Errorf("%q: package clauses read %q, go/build %q", p, cn, n)
		}
	}
	if n, ok := GorootName("internal/abi"); !ok || n != "abi" {
		t.Errorf("internal/abi: %q %v", n, ok)
	}
	if _, ok := GorootName("example.com/u/rand"); ok {
		t.Errorf("a user path has a GOROOT name")
	}
	if _, ok := GorootName("../x"); ok {
		t.Errorf("path escaping GOROOT/src accepted")
	}
	g := collisionGroups()
	for _, k := range []string{"rand", "template", "pprof", "scanner"} {
		if len(g[k]) < 2 {
			t.Errorf("collision group %s: %v", k, g[k])
		}
	}
}

func TestC18OracleRejectsAndAccepts(t *testing.T) {
	cases := []struct {
		name  string
		paths []string
		told  map[string]string
		src   string
		bad   string // substring of the expected verdict; "" = must be accepted
	}{
		{"plain std", []string{"math/rand"}, nil, "package p\nimport \"math/rand\"\nvar _ = rand.V0\n", ""},
		{"aliased std", []string{"math/rand/v2"}, nil, "package p\nimport v2 \"math/rand/v2\"\nvar _ = v2.V0\n", ""},
		{"prefixed alias", []string{"crypto/rand", "math/rand"}, nil, "package p\nimport (\n\"crypto/rand\"\npkg_rand1 \"math/rand\"\n)\nvar _ = rand.V0\nvar _ = pkg_rand1.V1\n", ""},
		{"user path told", []string{"example.com/u/rand", "math/rand"}, map[string]string{"example.com/u/rand": "rand"},
			"package p\nimport (\n\"example.com/u/rand\"\nrand1 \"math/rand\"\n)\nvar _ = rand.V0\nvar _ = rand1.V1\n", ""},

		// a wrong table entry / a guessed name trusted without writing the alias
		{"guessed name without alias", []string{"math/rand/v2"}, nil, "package p\nimport \"math/rand/v2\"\nvar _ = v2.V0\n", "a name the import does not provide"},
		{"wrong name without alias", []string{"text/template"}, nil, "package p\nimport \"text/template\"\nvar _ = tmpl.V0\n", "a name the import does not provide"},
		{"hint is not ground truth for GOROOT paths", []string{"math/rand/v2"}, map[string]string{"math/rand/v2": "v2"}, "package p\nimport \"math/rand/v2\"\nvar _ = v2.V0\n", "a name the import does not provide"},
		{"alias not used", []string{"math/rand"}, nil, "package p\nimport r \"math/rand\"\nvar _ = rand.V0\n", "imported with the alias r but qualified by rand"},
		{"two packages one name", []string{"crypto/rand", "math/rand"}, nil, "package p\nimport (\n\"crypto/rand\"\n\"math/rand\"\n)\nvar _ = rand.V0\nvar _ = rand.V1\n", "both bind the name rand"},
		{"std name taken by a user alias", []string{"example.com/u/rand", "math/rand"}, nil, "package p\nimport (\nrand \"example.com/u/rand\"\n\"math/rand\"\n)\nvar _ = rand.V0\nvar _ = rand.V1\n", "both bind the name rand"},
		{"user path without alias", []string{"example.com/u/rand"}, nil, "package p\nimport \"example.com/u/rand\"\nvar _ = rand.V0\n", "nothing tells its package name"},
		{"not imported", []string{"fmt"}, nil, "package p\nvar _ = fmt.V0\n", "not imported"},
		{"bare", []string{"fmt"}, nil, "package p\nimport \"fmt\"\nvar _ = V0\n", "without a qualifier"},
		{"dot import", []string{"fmt"}, nil, "package p\nimport . \"fmt\"\nvar _ = fmt.V0\n", "imported as ."},
		{"reference lost", []string{"fmt"}, nil, "package p\nimport \"fmt\"\n", "occurs 0 times"},
		{"imported twice", []string{"fmt"}, nil, "package p\nimport \"fmt\"\nimport f \"fmt\"\nvar _ = fmt.V0\n", "imported twice"},
		{"does not parse", []string{"fmt"}, nil, "package p\nimport fmt\n", "does not parse"},
	}
	for _, c := range cases {
		got := C18Check(c.paths, c.told, c.src)
		switch {
		case c.bad == "" && got != "":
			t.Errorf("%s: good output rejected: %s", c.name, got)
		case c.bad != "" && got == "":
			t.Errorf("%s: bad output accepted", c.name)
		case c.bad != "" && !strings.Contains(got, c.bad):
			t.Errorf("%s: rejected for another reason: %s", c.name, got)
		}
	}
}

func TestC18Generate(t *testing.T) {
	p := c18{}
	defer p.Close()
	cs := p.Generate(rand.New(rand.NewSource(1)), "quick")
	single, nt := 0, 0
	for _, c := range cs {
		for _, tg := range c.Tags {
			if tg == "exhaustive-single" {
				single++
			}
		}
		// the stub listings include empty, failing and panicking ones (c18_gennames.go); a
		// standalone sequence is non-trivial only when a std path follows the failed render of a
		// same-named other path (c18_standalone.go)
		if c.NonTrivial || c.Stream == "gennames-stub" || c.Stream == "standalone-sequence" {
			nt++
		}
		got := hist.NewWorld().Exec(c.Hist)
		if v := p.Oracle(c, got); v != "" {
			t.Fatalf("oracle fails on the unchanged tree: %s\n%s", v, c.Hist.Sexp())
		}
	}
	if single != 2*len(StdPackages()) {
		t.Errorf("single stream: %d cases for %d packages", single, len(StdPackages()))
	}
	if nt != len(cs) {
		t.Errorf("%d of %d cases non-trivial", nt, len(cs))
	}
	// an Oracle failure planted through the case's bookkeeping is reported
	c := &Case{Meta: map[string]interface{}{"fail": "x"}}
	if p.Oracle(c, nil) != "x" {
		t.Errorf("planted failure not reported")
	}
	// a render that did not write is not accepted silently
	c = c18Case("single", nil, []string{"fmt"})
	if p.Oracle(c, []hist.Obs{{Kind: "panic", Msg: "boom"}}) == "" {
		t.Errorf("panic accepted")
	}
}

func TestC18ParseNameTable(t *testing.T) {
	m, err := ParseNameTable("// hdr\n\npackage names\n\n// Table contains package name hints\nvar Table = map[string]string{\n\t\"archive/tar\": \"tar\",\n\t\"a\\\"b\": `c`,\n}\n", "Table")
	if err != nil || len(m) != 2 || m["archive/tar"] != "tar" || m["a\"b"] != "c" {
		t.Fatalf("%v %v", m, err)
	}
	for _, bad := range []string{
		"package names\nvar Other = map[string]string{}\n",
		"package names\nvar Table = f()\n",
		"package names\nvar Table = map[string]string{\"a\": \"b\", \"a\": \"c\"}\n",
		"package names\nvar Table = map[string]string{\"a\": x}\n",
		"package names\nvar Table = \n",
	} {
		if _, err := ParseNameTable(bad, "Table"); err == nil {
			t.Errorf("accepted: %q", bad)
		}
	}
}

// The whole pipeline for the tool, as the thorough tier runs it (skipped when the go
// command is not available to the test).
func TestC18Gennames(t *testing.T) {
	if testing.Short() {
		t.Skip("short")
	}
	table, err := RunGennames(RepoDir())
	if err != nil {
		t.Fatalf("gennames: %v", err)
	}
	if len(table) < 150 || table["fmt"] != "fmt" {
		t.Fatalf("implausible table (%d entries)", len(table))
	}
	for p, n := range table {
		real, ok := GorootName(p)
		if !ok || real != n {
			t.Errorf("gennames: %q -> %q, package clause says %q (%v)", p, n, real, ok)
		}
	}
	// a wrong entry is caught by the oracle through ImportNames; so is an entry without ground truth
	c := c18Case("gennames", hist.History{{Kind: "importnames", F: 0, Pairs: [][2]string{{"not/in/goroot", "goroot"}}}}, []string{"not/in/goroot"})
	c.Meta["strict"] = true
	if v := (c18{}).Oracle(c, hist.NewWorld().Exec(c.Hist)); !strings.Contains(v, "no package clause") {
		t.Errorf("table entry outside GOROOT: verdict %q", v)
	}
	c = c18Case("gennames", hist.History{{Kind: "importnames", F: 0, Pairs: [][2]string{{"math/rand/v2", "v2"}}}}, []string{"math/rand/v2"})
	got := hist.NewWorld().Exec(c.Hist)
	if v := (c18{}).Oracle(c, got); !strings.Contains(v, "a name the import does not provide") {
		t.Errorf("wrong table entry handed to ImportNames: verdict %q", v)
	}
}

// Every output of a history is judged on its own: a good first render does not excuse a bad
// second one, and a fragment rendered with the File has to use the qualifiers the File's
// import block declares afterwards.
func TestC18OraclePerOutput(t *testing.T) {
	p := c18{}
	paths := []string{"math/rand", "crypto/rand"}
	mk := func(frag bool) *Case {
		h := hist.History{{Kind: "newfile", F: 0, A: "p"}, {Kind: "importalias", F: 0, A: "crypto/rand", B: "rand"}}
		if frag {
			h = append(h, hist.Op{Kind: "rcode", F: 0}, hist.Op{Kind: "render", F: 0}, hist.Op{Kind: "imports", F: 0})
		} else {
			h = append(h, hist.Op{Kind: "render", F: 0}, hist.Op{Kind: "render", F: 0}, hist.Op{Kind: "imports", F: 0})
		}
		return &Case{Hist: h, Meta: map[string]interface{}{"paths": paths, "told": map[string]string{}}}
	}
	w := func(s string) hist.Obs { return hist.Obs{Kind: "write", Out: s} }
	good := "package p\n\nimport (\n\trand1 \"crypto/rand\"\n\t\"math/rand\"\n)\n\nvar _ = rand.V0\nvar _ = rand1.V1\n"
	tab := hist.Obs{Kind: "imports"}
	if m := p.Oracle(mk(false), []hist.Obs{w(good), w(good), tab}); m != "" {
		t.Fatalf("good history rejected: %s", m)
	}
	if m := p.Oracle(mk(true), []hist.Obs{w("_ = f(rand.V0, rand1.V1)"), w(good), tab}); m != "" {
		t.Fatalf("good fragment history rejected: %s", m)
	}
	for name, c := range map[string]struct {
		frag bool
		obs  []hist.Obs
		want string
	}{
		// the redundant alias written although the name is taken: two imports bind rand
		"second output declares rand twice": {false, []hist.Obs{w(good), w("package p\n\nimport (\n\trand \"crypto/rand\"\n\t\"math/rand\"\n)\n\nvar _ = rand.V0\nvar _ = rand.V1\n"), tab}, "both bind the name rand"},
		// renamed, but the import line lost the explicit alias
		"second output drops the alias":     {false, []hist.Obs{w(good), w("package p\n\nimport (\n\t\"crypto/rand\"\n\t\"math/rand\"\n)\n\nvar _ = rand.V0\nvar _ = rand1.V1\n"), tab}, "File.Render after 1 earlier output"},
		"second output loses an import":     {false, []hist.Obs{w(good), w("package p\n\nimport \"math/rand\"\n\nvar _ = rand.V0\nvar _ = rand1.V1\n"), tab}, "not imported"},
		"qualifier changes between outputs": {false, []hist.Obs{w(good), w("package p\n\nimport (\n\trand2 \"crypto/rand\"\n\t\"math/rand\"\n)\n\nvar _ = rand.V0\nvar _ = rand2.V1\n"), tab}, "is qualified by rand1 in the output of operation 2 and by rand2"},
		"fragment uses another qualifier":   {true, []hist.Obs{w("_ = f(rand.V0, rand.V1)"), w(good), tab}, "is qualified by rand in the output of operation 2 and by rand1"},
		"fragment writes a bare reference":  {true, []hist.Obs{w("_ = f(rand.V0, V1)"), w(good), tab}, "without a qualifier"},
		"second render missing":             {false, []hist.Obs{w(good)}, "has no observation"},
		"second render fails":               {false, []hist.Obs{w(good), {Kind: "fmterr", Out: "x"}, tab}, "was not rendered"},
	} {
		if m := p.Oracle(mk(c.frag), c.obs); !strings.Contains(m, c.want) {
			t.Errorf("%s: want %q, got %q", name, c.want, m)
		}
	}
	// the streams exist, are tagged, and hold on the unchanged tree
	n := map[string]int{}
	for _, c := range c18RedundantAlias() {
		for _, tg := range c.Tags {
			n[tg]++
		}
		if v := p.Oracle(c, hist.NewWorld().Exec(c.Hist)); v != "" {
			t.Fatalf("oracle fails on the unchanged tree: %s\n%s", v, c.Hist.Sexp())
		}
	}
	if n["redundant-alias"] != 2*len(StdPackages()) || n["redundant-alias+collision"] < 12*len(StdPackages()) || n["fragment-then-render"] == 0 || n["rendered-twice"] != n["redundant-alias"]+n["redundant-alias+collision"] {
		t.Errorf("tags: %v", n)
	}
}

// Stream op-order: every output of the history is judged against its own import block; a
// fragment against the File's import table.
func TestC18HistOracle(t *testing.T) {
	p := c18{}
	paths := []string{"math/rand", "example.com/u/rand"}
	h := hist.History{
		{Kind: "newfile", F: 0, A: "p"},
		{Kind: "render", F: 0}, {Kind: "imports", F: 0},
		{Kind: "importalias", F: 0, A: "math/rand", B: "."},
		{Kind: "rcode", F: 0}, {Kind: "imports", F: 0},
		{Kind: "render", F: 0}, {Kind: "imports", F: 0},
		{Kind: "imports", F: 0},
	}
	c := &Case{Hist: h, Stream: "op-order", Meta: map[string]interface{}{"paths": paths}}
	w := func(s string) hist.Obs { return hist.Obs{Kind: "write", Out: s} }
	tab := hist.Obs{Kind: "imports", Imports: []hist.Import{{Path: "math/rand", Name: "rand1"}, {Path: "example.com/u/rand", Name: "rand", Alias: true}}}
	tab.Imports[0] = hist.Import{Path: "math/rand", Name: "rand1", Alias: true}
	file := "package p\n\nimport (\n\trand \"example.com/u/rand\"\n\trand1 \"math/rand\"\n)\n\nvar _ = rand.V1_1\nvar _ = rand1.V0_2\n"
	frag := "var _ = f(rand1.V0_1, rand.V1_2)"
	good := []hist.Obs{w(file), tab, w(frag), tab, w(file), tab, tab}
	if m := p.Oracle(c, good); m != "" {
		t.Fatalf("good history rejected: %s", m)
	}
	plain := "package p\n\nimport \"math/rand\"\n\nvar _ = rand.V0_2\n"
	ptab := hist.Obs{Kind: "imports", Imports: []hist.Import{{Path: "math/rand", Name: "rand"}}}
	if m := p.Oracle(c, []hist.Obs{w(plain), ptab, w("var _ = rand.V0_1"), ptab, w(plain), ptab, ptab}); m != "" {
		t.Fatalf("good history (unaliased) rejected: %s", m)
	}
	dot := "package p\n\nimport . \"math/rand\"\n\nvar _ = V0_2\n"
	dtab := hist.Obs{Kind: "imports", Imports: []hist.Import{{Path: "math/rand", Name: ".", Alias: true}}}
	if m := p.Oracle(c, []hist.Obs{w(dot), dtab, w("var _ = V0_1"), dtab, w(dot), dtab, dtab}); m != "" {
		t.Fatalf("good history (dot-import) rejected: %s", m)
	}
	with := func(base []hist.Obs, k int, o hist.Obs) []hist.Obs {
		out := append([]hist.Obs{}, base...)
		out[k] = o
		return out
	}
	pl := []hist.Obs{w(plain), ptab, w("var _ = rand.V0_1"), ptab, w(plain), ptab, ptab}
	for name, b := range map[string]struct {
		obs  []hist.Obs
		want string
	}{
		// the seeded shape: the later dot hint is applied to the references of an unaliased import
		"later render writes the unaliased std path bare": {with(pl, 4, w("package p\n\nimport \"math/rand\"\n\nvar _ = V0_2\n")), "is imported without alias but is not referred to by its real name: it is written as a bare identifier"},
		"fragment writes the unaliased std path bare":     {with(pl, 2, w("var _ = V0_1")), "fragment rendered with the File (operation 4) against the File's import table: standard-library path \"math/rand\""},
		"unaliased std path under another name":           {with(pl, 4, w("package p\n\nimport \"math/rand\"\n\nvar _ = rand1.V0_2\n")), "is not referred to by its real name: it is written as rand1.X"},
		"table registers a wrong name without alias":      {with(pl, 3, hist.Obs{Kind: "imports", Imports: []hist.Import{{Path: "math/rand", Name: "rand1"}}}), "registers standard-library path \"math/rand\" without alias under the name rand1"},
		"alias not used":                           {with(good, 4, w("package p\n\nimport (\n\trand \"example.com/u/rand\"\n\trand1 \"math/rand\"\n)\n\nvar _ = rand.V1_1\nvar _ = rand.V0_2\n")), "is imported with the alias rand1 but referred to by rand.X"},
		"two imports bind one name":                {with(good, 4, w("package p\n\nimport (\n\trand \"example.com/u/rand\"\n\t\"math/rand\"\n)\n\nvar _ = rand.V1_1\nvar _ = rand.V0_2\n")), "both bind the name rand"},
		"dot-import qualified":                     {with(good, 4, w("package p\n\nimport (\n\trand \"example.com/u/rand\"\n\t. \"math/rand\"\n)\n\nvar _ = rand.V1_1\nvar _ = rand1.V0_2\n")), "is imported as . but referred to by rand1.X"},
		"anonymous import referenced":              {with(good, 4, w("package p\n\nimport (\n\trand \"example.com/u/rand\"\n\t_ \"math/rand\"\n)\n\nvar _ = rand.V1_1\nvar _ = rand1.V0_2\n")), "is imported as _ but referred to by rand1.X"},
		"import lost":                              {with(good, 4, w("package p\n\nimport rand \"example.com/u/rand\"\n\nvar _ = rand.V1_1\nvar _ = rand1.V0_2\n")), "but not imported"},
		"user path without alias, name never told": {with(good, 0, w("package p\n\nimport (\n\t\"example.com/u/rand\"\n\trand1 \"math/rand\"\n)\n\nvar _ = rand.V1_1\nvar _ = rand1.V0_2\n")), "a name nothing has told"},
		"render fails":                             {with(good, 4, hist.Obs{Kind: "fmterr", Out: "x"}), "was not rendered"},
	} {
		if m := p.Oracle(c, b.obs); !strings.Contains(m, b.want) {
			t.Errorf("%s: want %q, got %q", name, b.want, m)
		}
	}
}

// The op-order stream holds on the unchanged tree, every std package is a subject, and every
// ordered pair of operations occurs for every kind, before and after the first rendering.
func TestC18OpOrderGenerate(t *testing.T) {
	p := c18{}
	cases := c18OpOrderCases(rand.New(rand.NewSource(2)), "quick")
	subjects := map[string]bool{}
	n := map[string]int{}
	for _, c := range cases {
		if m := p.Oracle(c, hist.NewWorld().Exec(c.Hist)); m != "" {
			t.Fatalf("oracle fails on the unchanged tree: %s\n%s", m, c.Hist.Sexp())
		}
		subjects[c.Meta["paths"].([]string)[0]] = true
		kind := ""
		for _, tg := range c.Tags {
			if strings.HasPrefix(tg, "subject=") {
				kind = tg
			}
		}
		for _, tg := range c.Tags {
			if strings.HasPrefix(tg, "order=") || strings.HasPrefix(tg, "after-first-rendering=") || strings.HasPrefix(tg, "before-first-rendering=") {
				n[kind+" "+tg]++
			}
		}
	}
	for _, sp := range StdPackages() {
		if !subjects[sp.Path] {
			t.Errorf("std package %s is never the subject", sp.Path)
		}
	}
	for _, kind := range []string{"std", "std-collide", "std+user"} {
		for _, a := range opOrderKinds {
			for _, b := range opOrderKinds {
				if n["subject="+kind+" order="+a+"-then-"+b] < 30 {
					t.Errorf("%s: order %s-then-%s has %d cases", kind, a, b, n["subject="+kind+" order="+a+"-then-"+b])
				}
			}
			if n["subject="+kind+" after-first-rendering="+a] < 50 || n["subject="+kind+" before-first-rendering="+a] < 50 {
				t.Errorf("%s: %s after/before the first rendering: %d/%d cases", kind, a, n["subject="+kind+" after-first-rendering="+a], n["subject="+kind+" before-first-rendering="+a])
			}
		}
	}
}

// Stream standalone-sequence: the oracle accepts what the implementation under test does, and
// rejects a standalone fragment that refers to a standard-library package by a numbered name
// (what a render gives whose stand-in File still holds the imports of an earlier, failed render).
func TestC18StandaloneSequenceOracle(t *testing.T) {
	cases := c18StandaloneCases(rand.New(rand.NewSource(11)), "quick")
	nt, rejected := 0, 0
	for _, c := range cases {
		m := c.Meta["c18sa"].(*c18saMeta)
		got := hist.NewWorld().Exec(c.Hist)
		if msg := c18StandaloneOracle(m, got); msg != "" {
			t.Fatalf("oracle rejects %v: %s\n%s", c.Tags, msg, c.Hist.Sexp())
		}
		if !c.NonTrivial {
			continue
		}
		nt++
		// damage: number the qualifier of a std path in the last written fragment
		for i := len(got) - 1; i >= 0; i-- {
			if got[i].Kind != "write" || got[i].Failed {
				continue
			}
			for _, j := range m.Steps[i].paths {
				if real, std := GorootName(m.Paths[j]); std && strings.Contains(got[i].Out, real+".V") {
					bad := append([]hist.Obs{}, got...)
					bad[i].Out = strings.Replace(got[i].Out, real+".V", real+"1.V", 1)
					if msg := c18StandaloneOracle(m, bad); !strings.Contains(msg, "a name nothing provides") {
						t.Errorf("%s1 for %q is accepted: %q", real, m.Paths[j], msg)
					} else {
						rejected++
					}
					break
				}
			}
			break
		}
	}
	if nt < 200 || rejected < 100 {
		t.Errorf("%d non-trivial sequences, %d damaged outputs rejected", nt, rejected)
	}
}

// Streams import-layout and dict-key (c18_layout.go): the oracle accepts what the implementation
// gives on every enumerated layout / scenario and rejects the damaged outputs: the lone std import
// next to a cgo preamble dropped; a Dict key qualified by the plain name while its import line
// carries the numbered alias.
func TestC18LayoutAndDictKey(t *testing.T) {
	r := rand.New(rand.NewSource(2))
	lone, weak, det := 0, 0, 0
	for _, c := range append(c18LayoutCases(r, "quick"), c18DictKeyCases(r, "quick")...) {
		got := hist.NewWorld().Exec(c.Hist)
		if m := (c18{}).Oracle(c, got); m != "" {
			t.Fatalf("oracle rejects (%v): %s\n%s", c.Tags, m, c.Hist.Sexp())
		}
		if c.Meta["weak"] == true {
			weak++
		} else if c.Stream == "dict-key" {
			det++
		}
		for _, tg := range c.Tags {
			if tg == "preamble+C-not-mentioned+std-imports=1" {
				lone++
			}
		}
	}
	if lone < 10 || weak == 0 || det < 10*weak/4 {
		t.Fatalf("lone-import-next-to-preamble=%d weak=%d byte-compared=%d", lone, weak, det)
	}
	if _, ok := GorootName("text/template"); !ok {
		t.Skip("no GOROOT/src")
	}
	paths := []string{"text/template"}
	good := "package p\n\n// #cgo LDFLAGS: -lm\nimport \"C\"\n\nimport \"text/template\"\n\nvar _ = template.V0\n"
	bad := "package p\n\n// #cgo LDFLAGS: -lm\nimport \"C\"\n\nvar _ = template.V0\n"
	if m := C18Check(paths, nil, good); m != "" {
		t.Fatalf("good layout rejected: %s", m)
	}
	if m := C18Check(paths, nil, bad); m == "" {
		t.Fatal("dropped import accepted")
	}
	paths = []string{"math/rand", "crypto/rand"}
	good = "package p\n\nimport (\n\trand1 \"crypto/rand\"\n\t\"math/rand\"\n)\n\nvar _ = rand.V0\nvar _ = map[int]int{rand1.V1: 7}\n"
	bad = "package p\n\nimport (\n\trand1 \"crypto/rand\"\n\t\"math/rand\"\n)\n\nvar _ = rand.V0\nvar _ = map[int]int{rand.V1: 7}\n"
	if m := C18Check(paths, nil, good); m != "" {
		t.Fatalf("good dict key rejected: %s", m)
	}
	if m := C18Check(paths, nil, bad); m == "" {
		t.Fatal("key qualified by a name its import does not provide is accepted")
	}
}
