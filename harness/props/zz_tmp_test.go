package props
import ("testing";"fmt";"verifharness/hist";"verifharness/term")
func TestZZPaths(t *testing.T){
	for _,p:=range []string{"a.b/_3rd", "x/.2fa", "a/-9lives", "a/é9x", "a.b/9_", "x.y/__"}{
		fmt.Println(p, "safeLocal", safeLocal[p])
		h:=hist.History{{Kind:"newfile",F:0,A:"p"},{Kind:"fadd",F:0,Code:term.S(term.Named("Var"),term.Id("v"),term.Op("="),term.Qual(p,"V"))},{Kind:"render",F:0},{Kind:"imports",F:0}}
		fmt.Println(h.Sexp())
		fmt.Printf("%q\n", hist.NewWorld().Exec(h))
		h2:=hist.History{{Kind:"newfilepath",F:0,A:p},{Kind:"fadd",F:0,Code:term.S(term.Named("Var"),term.Id("v"),term.Op("="),term.Qual(p,"V"))},{Kind:"render",F:0}}
		fmt.Println(h2.Sexp())
		fmt.Printf("%q\n", hist.NewWorld().Exec(h2))
	}
}
