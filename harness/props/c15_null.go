package props

import (
	"fmt"
	"math/rand"
	"sort"
	"strings"

	"verifharness/hist"
	"verifharness/term"
)

// C15, round 6.  Two dimensions the earlier streams did not have:
//
//	null-around  items that render NOTHING next to the commented items.  The protective newline of
//	             a multi-line group is written "after the last item": which item is the last one
//	             that RENDERS is not the last one of the list as soon as null items follow.  The
//	             product enumerated here: (container group of every template: Block, case body,
//	             Defs, Struct, Interface, also the ones without items) x (where the null items go:
//	             after the last item, a run of two or three after it, before the first, between two
//	             items, around every item) x (kind of null item: nil, typed nils, Null(), an empty
//	             Statement - what a Do / a Group form that adds nothing leaves behind -, an empty
//	             Tag, nested empty statements, List(), a List of nulls, Custom without delimiters,
//	             Add(Dict{})) x (every comment site of that container in the decorated program: own
//	             item at every index - before, between and after the null items - and the end of every
//	             item, the null statements included) x (a line-style and a drawn text).  Then drawn
//	             cases: null items of drawn kinds in several containers of one template, several
//	             comments (one per line), and - a third of all cases - both files built through
//	             random API FORMS (BlockFunc / DefsFunc / StructFunc / InterfaceFunc callbacks, Group
//	             methods, Do, package functions: term.FormBuilder) instead of chained methods.
//	special      texts made of characters that are special to functions a text may pass through
//	             on its way to the output (fmt verbs `%d %% %!` ..., backslash escapes, `$1 ${x}`,
//	             backquotes, and their combinations) as Comment / Commentf("%s") texts at drawn sites,
//	             as header and package comments, as canonical path and as cgo preamble blocks of all
//	             five forms: the text must arrive byte for byte.
//
// Both files of a case (WITHOUT / WITH comments) get the same null items, so the token
// comparison isolates the effect of the comments.

type c15NullIns struct {
	Grp  int // index of the container group in walk order (c15Containers)
	At   int // index among the template's own items before which the item goes (len = after the last)
	Kind int // index into c15Nullishes
}

// c15Nullishes: the kinds of c02_nullish.go that are null for rendering and can be an item of
// any group (a Dict given directly is an item of Values only).
var c15Nullishes = func() []c02Nullish {
	var out []c02Nullish
	for _, z := range c02Nullishes {
		if z.null && !z.dict {
			out = append(out, z)
		}
	}
	return out
}()

type c15Container struct {
	g    *term.Group
	kind string
}

// c15Containers lists the container groups (the ones that have comment sites) in walk order.
func c15Containers(items []*term.Stmt) []c15Container {
	var out []c15Container
	var walk func(st *term.Stmt)
	walk = func(st *term.Stmt) {
		for i, it := range st.Items {
			switch x := it.(type) {
			case *term.Group:
				if k := c15ContainerKind(st, i, x); k != "" {
					out = append(out, c15Container{x, k})
				}
				for _, sub := range x.Items {
					if s, ok := sub.(*term.Stmt); ok {
						walk(s)
					}
				}
			case *term.Stmt:
				walk(x)
			}
		}
	}
	for _, s := range items {
		walk(s)
	}
	return out
}

// build: the template program, decorated with the null items of the spec.
func (sp *c15Spec) build() []*term.Stmt {
	items := c15Templates[sp.Tmpl].build()
	if len(sp.Nulls) == 0 {
		return items
	}
	cs := c15Containers(items) // before any insertion: the indices of the spec refer to the template
	per := map[int][]c15NullIns{}
	for _, n := range sp.Nulls {
		per[n.Grp] = append(per[n.Grp], n)
	}
	for gi, ns := range per {
		g := cs[gi].g
		var out []term.Node
		for j := 0; j <= len(g.Items); j++ {
			for _, n := range ns {
				if n.At == j || n.At > len(g.Items) && j == len(g.Items) {
					out = append(out, c15Nullishes[n.Kind].mk())
				}
			}
			if j < len(g.Items) {
				out = append(out, g.Items[j])
			}
		}
		g.Items = out
	}
	return items
}

func c15FormsWorld(seed int64) func(w *hist.World) {
	return func(w *hist.World) {
		fb := term.NewFormBuilder(rand.New(rand.NewSource(seed)), c14Funcs, term.NewFormLog())
		w.B.StmtHook = fb.Stmt
	}
}

// c15SiteContainer: the container group a site belongs to directly (nil: the file).
func c15SiteContainer(cs []c15Container, s c15Site) *c15Container {
	for i := range cs {
		if s.own && s.grp == cs[i].g {
			return &cs[i]
		}
		if !s.own {
			for _, it := range cs[i].g.Items {
				if st, ok := it.(*term.Stmt); ok && st == s.stmt {
					return &cs[i]
				}
			}
		}
	}
	return nil
}

// c15NullTags measures, on the decorated program, where the comments stand relative to the
// null items (prog / sites: the WITH program before the comments are applied).
func c15NullTags(sp *c15Spec, prog []*term.Stmt, sites []c15Site, tagset map[string]bool) {
	if sp.Forms != 0 {
		tagset["forms=random"] = true
	}
	if len(sp.Nulls) == 0 {
		return
	}
	if sp.Forms == 0 {
		tagset["forms=chained"] = true
	}
	tmpl := c15Containers(c15Templates[sp.Tmpl].build())
	for _, n := range sp.Nulls {
		tagset["nullish="+c15Nullishes[n.Kind].name] = true
		tagset["null-in="+tmpl[n.Grp].kind] = true
		k := len(tmpl[n.Grp].g.Items)
		switch {
		case k == 0:
			tagset["null-at=only-item(s)"] = true
		case n.At >= k:
			tagset["null-at=after-last"] = true
		case n.At == 0:
			tagset["null-at=before-first"] = true
		default:
			tagset["null-at=between"] = true
		}
	}
	cs := c15Containers(prog)
	for _, p := range sp.Places {
		s := sites[p.Site]
		c := c15SiteContainer(cs, s)
		if c == nil {
			continue
		}
		// items of the container after / before the comment
		from := s.idx
		upto := s.idx
		if !s.own {
			for j, it := range c.g.Items {
				if st, ok := it.(*term.Stmt); ok && st == s.stmt {
					from, upto = j+1, j
				}
			}
		}
		after, before := c.g.Items[from:], c.g.Items[:upto]
		allNull := func(l []term.Node) bool {
			for _, it := range l {
				if !termNull(it) {
					return false
				}
			}
			return len(l) > 0
		}
		style := "line"
		if strings.Contains(p.Text, "\n") {
			style = "block"
		}
		if allNull(after) {
			// the comment is the last thing the group renders and null items follow it: the case the
			// protective newline before the closing token is for
			tagset["comment-last-rendered+nulls-follow="+c.kind+"/"+style] = true
			tagset[fmt.Sprintf("nulls-following=%d", c01Min(len(after), 3))] = true
			if !s.own {
				tagset["comment-last-rendered+nulls-follow=item-end"] = true
			} else {
				tagset["comment-last-rendered+nulls-follow=own-item"] = true
			}
		}
		if allNull(before) {
			tagset["comment-first-rendered+nulls-precede="+c.kind] = true
		}
		if !s.own && termNull(s.stmt) {
			tagset["comment-at-the-end-of-a-null-item"] = true
		}
		if len(after) > 0 && termNull(after[0]) && !allNull(after) || len(before) > 0 && termNull(before[len(before)-1]) && !allNull(before) {
			tagset["comment-next-to-a-null-item-between-items"] = true
		}
	}
}

var c15LinePool = []string{"keep } ) ] contained", "x", "}", ")", "} // }", "a /* b", "return }", `"unterminated`, "`raw", "世界 }"}

// c15SpecialFrag: characters special to fmt, to escapes, to template / regexp expansion, to raw
// strings.
var c15SpecialFrag = []string{
	"%", "%%", "%d", "%s", "%v", "%q", "%x", "%T", "%5.2f", "%+v", "%#v", "%[1]d", "%[2]*[1]d", "%!", "%!d(MISSING)", "%!(EXTRA int=1)", "%*d", "%-", "%c", "%U", "100%", "%%%",
	`\`, `\\`, `\n`, `\t`, `\"`, `\x41`, `é`, `\0`, `\1`, `\'`, `\ `,
	"$", "$$", "$1", "${1}", "$x", "${x}", "$0", "$(x)", "${", "$&",
	"`", "` `", "``", "`%s`", "`\\n`",
	"{{.}}", "{{", "}}", "<%= x %>", "#{x}", "&amp;", "<b>", "?", "*", "[a-z]+", "^$", "(?i)",
	" ", "a", "printf(\"%d%%\\n\", n);", "x", ";", "\n",
}

func c15SpecialText(r *rand.Rand, oneLine bool) string {
	for {
		n := 1 + r.Intn(5)
		var sb strings.Builder
		for i := 0; i < n; i++ {
			f := pick(r, c15SpecialFrag)
			if oneLine && f == "\n" {
				f = " "
			}
			sb.WriteString(f)
		}
		t := sb.String()
		if c15InDomain(t) && !c15GofmtMoves(t) && strings.ContainsAny(t, "%\\$`{&?[") {
			return t
		}
	}
}

func c15SpecialTags(sp *c15Spec, where string, t string, tagset map[string]bool) {
	for ch, name := range map[string]string{"%": "percent", `\`: "backslash", "$": "dollar", "`": "backquote", "{{": "template-braces"} {
		if strings.Contains(t, ch) {
			tagset["special="+name+"@"+where] = true
		}
	}
}

func c15Round6Streams(r *rand.Rand, t string) []*Case {
	var out []*Case
	forms := func() int64 {
		if r.Intn(3) == 0 {
			return 1 + r.Int63n(1<<40)
		}
		return 0
	}
	// ---- null-around, enumerated ----
	type pattern struct {
		name string
		at   func(n int) []int // positions (template indices) of the null items for a group of n items
	}
	patterns := []pattern{
		{"after-last", func(n int) []int { return []int{n} }},
		{"run-after-last", func(n int) []int { return []int{n, n, n}[:2+r.Intn(2)] }},
		{"before-first", func(n int) []int { return []int{0} }},
		{"between", func(n int) []int {
			if n < 2 {
				return nil
			}
			return []int{1 + r.Intn(n-1)}
		}},
		{"around-every-item", func(n int) []int {
			var l []int
			for j := 0; j <= n; j++ {
				l = append(l, j)
			}
			return l
		}},
	}
	zi := r.Intn(len(c15Nullishes))
	li := r.Intn(len(c15LinePool))
	for ti := range c15Templates {
		ncont := len(c15Containers(c15Templates[ti].build()))
		for gi := 0; gi < ncont; gi++ {
			n := len(c15Containers(c15Templates[ti].build())[gi].g.Items)
			for _, pt := range patterns {
				ats := pt.at(n)
				if ats == nil || n == 0 && pt.name != "after-last" && pt.name != "run-after-last" {
					continue
				}
				var nulls []c15NullIns
				for _, at := range ats {
					nulls = append(nulls, c15NullIns{Grp: gi, At: at, Kind: zi % len(c15Nullishes)})
					zi++
				}
				probeSp := &c15Spec{Tmpl: ti, Nulls: nulls}
				probe := probeSp.build()
				sites := c15Sites(&probe)
				cs := c15Containers(probe)
				for s := range sites {
					if c := c15SiteContainer(cs, sites[s]); c == nil || c.g != cs[gi].g {
						continue
					}
					for j := 0; j < tier(t, 2, 4); j++ {
						text := c15LinePool[li%len(c15LinePool)]
						li++
						if j%2 == 1 {
							text = c15Text(r)
						}
						out = append(out, c15Case(&c15Spec{Tmpl: ti, Nulls: nulls, Forms: forms(),
							Places: []c15Place{{Site: s, Text: text, F: r.Intn(8) == 0}}}, "null-around"))
					}
				}
			}
		}
	}
	// ---- null-around, drawn: several containers, several comments ----
	for i, n := 0, tier(t, 1500, 30000); i < n; i++ {
		ti := r.Intn(len(c15Templates))
		cont := c15Containers(c15Templates[ti].build())
		sp := &c15Spec{Tmpl: ti, Forms: forms()}
		for k := 1 + r.Intn(4); k > 0; k-- {
			gi := r.Intn(len(cont))
			m := len(cont[gi].g.Items)
			at := m // after the last item: half of the draws
			if r.Intn(2) == 0 {
				at = r.Intn(m + 1)
			}
			for run := 1 + r.Intn(2); run > 0; run-- {
				sp.Nulls = append(sp.Nulls, c15NullIns{Grp: gi, At: at, Kind: r.Intn(len(c15Nullishes))})
			}
		}
		probe := sp.build()
		sites := c15Sites(&probe)
		cs := c15Containers(probe)
		// the sites of the decorated containers first (that is where the null items are), the others among them
		var near, far []int
		for s := range sites {
			c := c15SiteContainer(cs, sites[s])
			hit := false
			for _, nl := range sp.Nulls {
				hit = hit || c != nil && c.g == cs[nl.Grp].g
			}
			if hit {
				near = append(near, s)
			} else {
				far = append(far, s)
			}
		}
		var idx []int
		for _, k := range r.Perm(len(near))[:c01Min(len(near), 1+r.Intn(4))] {
			idx = append(idx, near[k])
		}
		if len(far) > 0 && r.Intn(2) == 0 {
			idx = append(idx, far[r.Intn(len(far))])
		}
		sort.Ints(idx)
		chosen := map[int]bool{}
		for _, s := range idx {
			chosen[s] = true
		}
		for _, s := range idx {
			clash := false
			for _, o := range sites[s].conflicts { // one comment per line (the property's quantifier)
				clash = clash || chosen[o]
			}
			if clash {
				chosen[s] = false
				continue
			}
			text := c15Text(r)
			if r.Intn(3) == 0 {
				text = pick(r, c15LinePool)
			}
			sp.Places = append(sp.Places, c15Place{Site: s, Text: text, F: r.Intn(8) == 0})
		}
		out = append(out, c15Case(sp, "null-around"))
	}
	// ---- special ----
	tmpls := c15CgoTemplates()
	for i, n := 0, tier(t, 1200, 20000); i < n; i++ {
		sp := &c15Spec{Tmpl: r.Intn(len(c15Templates))}
		extra := map[string]bool{}
		switch i % 4 {
		case 0, 1: // comments in the body
			probe := sp.build()
			sites := c15Sites(&probe)
			chosen := map[int]bool{}
			for _, s := range sortedSample(r, len(sites), 1+r.Intn(3)) {
				clash := false
				for _, o := range sites[s].conflicts {
					clash = clash || chosen[o]
				}
				if clash {
					continue
				}
				chosen[s] = true
				tx := c15SpecialText(r, r.Intn(3) > 0)
				c15SpecialTags(sp, "comment", tx, extra)
				sp.Places = append(sp.Places, c15Place{Site: s, Text: tx, F: r.Intn(4) == 0})
			}
		case 2: // file head
			for j := 1 + r.Intn(2); j > 0; j-- {
				tx := c15SpecialText(r, r.Intn(3) > 0)
				c15SpecialTags(sp, "header", tx, extra)
				sp.Headers = append(sp.Headers, tx)
			}
			for j := r.Intn(3); j > 0; j-- {
				tx := c15SpecialText(r, r.Intn(3) > 0)
				c15SpecialTags(sp, "package-comment", tx, extra)
				sp.Pkg = append(sp.Pkg, tx)
			}
			if r.Intn(2) == 0 {
				sp.Canonical = c15SpecialText(r, true)
				c15SpecialTags(sp, "canonical-path", sp.Canonical, extra)
			}
		default: // cgo preamble blocks of every form
			sp.Tmpl = tmpls[r.Intn(len(tmpls))]
			for j := 1 + r.Intn(3); j > 0; j-- {
				form := r.Intn(c15CgoForms)
				var b string
				switch form {
				case 0:
					b = c15SpecialText(r, true)
				case 1:
					b = c15SpecialText(r, true) + "\n" + c15SpecialText(r, false)
				case 2:
					b = "// " + c15SpecialText(r, true)
				case 3:
					b = "/* " + c15SpecialText(r, true) + " */"
				default:
					b = "/*\n" + c15SpecialText(r, true) + "\n" + strings.TrimSuffix(c15SpecialText(r, false), "\n") + "\n*/"
				}
				if strings.Contains(b, "\f") || c15GofmtMoves(b) {
					j++
					continue
				}
				c15SpecialTags(sp, "cgo-preamble/"+c15CgoForm(b), b, extra)
				sp.Cgo = append(sp.Cgo, b)
			}
		}
		c := c15Case(sp, "special")
		for tg := range extra {
			c.Tags = append(c.Tags, tg)
		}
		sort.Strings(c.Tags)
		out = append(out, c)
	}
	return out
}
