package props

import (
	"fmt"
	"math/rand"
	"sort"
	"strconv"

	"verifharness/hist"
	"verifharness/term"
)

// C16, stream fill-between-renders: a Dict whose pairs have PLACEHOLDER keys and values
// (empty statements / Null() whose pointers the caller keeps) is rendered, some placeholders
// are extended through the retained pointers, the SAME values are rendered again, and so on
// for 1..3 rounds.  A pair must be in a render exactly when both its sides render something
// AT THE TIME of that render - whatever the pair looked like in earlier renders.
//
// The history is built with the retained-pointer machinery of c08_fill.go (the model reads,
// per render, the tree as it is then; the implementation extends and re-renders one set of
// values).  Every side of a pair knows its text after t rounds (c16FE.At), so the oracle has
// the expected multiset of pairs per render without asking anybody.

// c16FE: one side of a pair; its text depends on how many rounds of extensions have happened.
type c16FE struct {
	Node term.Node
	At   func(t int) (text string, null bool)
}

type c16fGen struct {
	r     *rand.Rand
	sp    *c08fSpec
	tags  map[string]bool
	nz    int
	R     int          // rounds of extensions
	fills [][]c08fStep // fills[t]: the extensions of round t (1..R)
}

func (g *c16fGen) tag(s string) { g.tags[s] = true }

func c16Const(e c16E) c16FE {
	return c16FE{Node: e.Mk(), At: func(int) (string, bool) { return e.T, e.Null }}
}

// unique draws an expression whose text no other expression of the case has.
func (g *c16fGen) unique(key bool) c16E {
	g.nz++
	k := g.nz
	switch g.r.Intn(6) {
	case 0:
		return c16Int(1000 + k)
	case 1:
		return c16Str("z" + strconv.Itoa(k))
	case 2:
		g.tag("qual-fill")
		return c16Qual(g.r.Intn(len(c16QualNames)), "Z"+strconv.Itoa(k))
	case 3:
		return c16Call("fz"+strconv.Itoa(k), c16Int(k%7))
	}
	return c16Id("Z" + strconv.Itoa(k))
}

var c16fShapes = []string{"direct", "direct", "wrapped", "list", "callarg"}

// holeSide makes a side that is a placeholder (or holds one).
func (g *c16fGen) holeSide(key bool) c16FE {
	r := g.r
	var hole *term.Stmt
	switch r.Intn(3) {
	case 0:
		hole = term.S() // &Statement{}
		g.tag("hole=empty")
	case 1:
		hole = term.S(term.Null()) // Null()
		g.tag("hole=null")
	default:
		hole = term.S(term.Null(), term.Null())
		g.tag("hole=nullnull")
	}
	g.sp.Holes = append(g.sp.Holes, &c08fHole{St: hole, Init: len(hole.Items)})
	shape := c16fShapes[r.Intn(len(c16fShapes))]
	g.tag("shape=" + shape)
	fn := ""
	var node term.Node = hole
	switch shape {
	case "wrapped":
		node = term.S(hole) // Add(hole)
	case "list":
		node = term.S(term.G("List", hole, term.Nil{})) // a delimiter-less group that is null as long as the hole is
	case "callarg":
		g.nz++
		fn = "fz" + strconv.Itoa(g.nz)
		node = term.S(term.Id(fn), term.G("Call", hole))
	}
	// the extensions: [Null() at f0 <] the real one at f [< `+ Zk` at f2]; f = R+1: never
	f := 1 + r.Intn(g.R+1)
	if r.Intn(6) > 0 && f > g.R {
		f = 1 + r.Intn(g.R)
	}
	e := g.unique(key)
	if !key && r.Intn(2) == 0 {
		cg := &c16Gen{r: r, quals: false}
		e = cg.expr(1)
	}
	ext := func(t int, items ...term.Node) {
		g.fills[t] = append(g.fills[t], c08fStep{Kind: "ext", St: hole, Items: items})
	}
	f2, more := 0, ""
	if f > g.R {
		g.tag("never-extended")
	} else {
		if f > 1 && r.Intn(3) == 0 {
			ext(1+r.Intn(f-1), term.Null())
			g.tag("extended-but-still-null")
		}
		ext(f, e.Mk().(*term.Stmt).Items...)
		if f < g.R && r.Intn(3) == 0 {
			f2 = f + 1 + r.Intn(g.R-f)
			g.nz++
			more = "Z" + strconv.Itoa(g.nz)
			ext(f2, term.Op("+"), term.Id(more))
			g.tag("extended-twice")
		}
	}
	return c16FE{Node: node, At: func(t int) (string, bool) {
		base := ""
		if t >= f {
			base = e.T
			if f2 > 0 && t >= f2 {
				base += " + " + more
			}
		}
		if shape == "callarg" {
			return fn + " (" + base + ")", false
		}
		return base, base == ""
	}}
}

type c16fPair struct{ K, V c16FE }

func c16fSurviving(ps []c16fPair, t int) []C16KV {
	var out []C16KV
	for _, p := range ps {
		k, kn := p.K.At(t)
		v, vn := p.V.At(t)
		if !kn && !vn {
			out = append(out, C16KV{k, v})
		}
	}
	return out
}

type c16fMeta struct {
	Views []string  // per observation: skip | imports | raw-file | fmt-file | fmt-expr
	Exps  [][]C16KV // per observation: the pairs that survive at that time
	F     *c08fMeta
}

func c16FillCase(r *rand.Rand, typ int) *Case {
	g := &c16fGen{r: r, sp: &c08fSpec{}, tags: map[string]bool{}, R: 1 + r.Intn(3)}
	g.fills = make([][]c08fStep, g.R+1)
	// constant pairs with pairwise distinct key texts; then sides are replaced by placeholders
	cg := &c16Gen{r: r, quals: r.Intn(2) == 0}
	np := 1 + r.Intn(8)
	cps, ctags := cg.pairs(np, false, "", false)
	for k := range ctags {
		g.tag(k)
	}
	var ps []c16fPair
	nh := 0
	for i, cp := range cps {
		p := c16fPair{c16Const(cp.K), c16Const(cp.V)}
		w := r.Intn(6)
		if i == 0 && w > 2 {
			w = r.Intn(3) // the first pair always has a placeholder
		}
		switch w {
		case 0:
			p.K = g.holeSide(true)
			g.tag("placeholder-key")
		case 1:
			p.V = g.holeSide(false)
			g.tag("placeholder-value")
		case 2:
			p.K, p.V = g.holeSide(true), g.holeSide(false)
			g.tag("placeholder-key-and-value")
		default:
			continue
		}
		nh++
		ps = append(ps, p)
		cps[i].K.Mk = nil
	}
	for _, cp := range cps {
		if cp.K.Mk != nil {
			ps = append(ps, c16fPair{c16Const(cp.K), c16Const(cp.V)})
		}
	}
	r.Shuffle(len(ps), func(a, b int) { ps[a], ps[b] = ps[b], ps[a] })
	d := &term.Dict{}
	for _, p := range ps {
		d.Pairs = append(d.Pairs, [2]term.Node{p.K.Node, p.V.Node})
	}
	ty, tn := c16Type(typ)
	lit := term.S(append(append([]term.Node{}, ty...), term.G("Values", d))...)
	mode := "file"
	if r.Intn(4) == 0 {
		mode = "expr"
	}
	step := func(st c08fStep) { g.sp.Steps = append(g.sp.Steps, st) }
	set := func(op hist.Op) { step(c08fStep{Kind: "set", Op: op}) }
	set(hist.Op{Kind: "newfile", F: 0, A: "p"})
	set(hist.Op{Kind: "noformat", F: 0, Flag: true})
	target := mode == "expr" || r.Intn(3) == 0
	if mode == "file" {
		if r.Intn(2) == 0 {
			g.tag("pre-imported")
			for _, q := range c16QualNames {
				step(c08fStep{Kind: "fadd", St: term.S(term.Named("Var"), term.Id("_"), term.Op("="), term.Qual(q[0], "A"))})
			}
		}
		step(c08fStep{Kind: "fadd", St: term.S(append([]term.Node{term.Named("Var"), term.Id("_"), term.Op("=")}, lit.Items...)...)})
	}
	// views and expectations, by step
	viewOf := map[int]string{}
	timeOf := map[int]int{}
	rendered := make([]bool, g.R+1)
	render := func(t int) {
		var kinds []string
		if mode == "file" {
			kinds = append(kinds, "render", "render", "fgostring", "fmt")
		}
		if target {
			kinds = append(kinds, "rcode", "gostring", "rplain")
		}
		k := kinds[r.Intn(len(kinds))]
		g.tag("view=" + k)
		n := 1
		if r.Intn(4) == 0 {
			n = 2
			g.tag("render-twice")
		}
		obs := func(st c08fStep, view string) {
			step(st)
			viewOf[len(g.sp.Steps)-1], timeOf[len(g.sp.Steps)-1] = view, t
		}
		for ; n > 0; n-- {
			switch k {
			case "render", "fgostring":
				obs(c08fStep{Kind: k}, "raw-file")
			case "fmt":
				set(hist.Op{Kind: "noformat", F: 0, Flag: false})
				obs(c08fStep{Kind: "render"}, "fmt-file")
				set(hist.Op{Kind: "noformat", F: 0, Flag: true})
			case "gostring":
				obs(c08fStep{Kind: k, St: lit, Verb: r.Intn(2) == 0}, "fmt-expr")
			default:
				obs(c08fStep{Kind: k, St: lit}, "fmt-expr")
			}
		}
		rendered[t] = true
	}
	for t := 0; t <= g.R; t++ {
		if t > 0 {
			fs := g.fills[t]
			r.Shuffle(len(fs), func(a, b int) { fs[a], fs[b] = fs[b], fs[a] })
			for _, f := range fs {
				step(f)
			}
		}
		if t == 0 && r.Intn(8) == 0 {
			g.tag("no-render-before-first-extension")
			continue
		}
		for n := 1 + r.Intn(2); n > 0; n-- {
			render(t)
		}
	}
	step(c08fStep{Kind: "imports"})
	h, fviews := c08fBuild(g.sp)
	m := &c16fMeta{F: &c08fMeta{Spec: g.sp, Views: fviews}}
	for _, v := range fviews {
		switch v.Kind {
		case "skip", "imports":
			m.Views = append(m.Views, v.Kind)
			m.Exps = append(m.Exps, nil)
		default:
			m.Views = append(m.Views, viewOf[v.Step])
			m.Exps = append(m.Exps, c16fSurviving(ps, timeOf[v.Step]))
		}
	}
	// NonTrivial: some pair is left out of one render (a side is a placeholder nothing was
	// appended to, or only Null()) and must be in a later render of the same values.
	nontrivial := false
	for _, p := range ps {
		was := false
		for t := 0; t <= g.R; t++ {
			if !rendered[t] {
				continue
			}
			_, kn := p.K.At(t)
			_, vn := p.V.At(t)
			if kn || vn {
				was = true
			} else if was {
				nontrivial = true
			}
		}
	}
	if nontrivial {
		g.tag("pair-appears-in-a-later-render")
	}
	g.tag("rounds=" + strconv.Itoa(g.R))
	g.tag("pairs=" + c16Bucket(len(ps)))
	g.tag("placeholder-pairs=" + c16Bucket(nh))
	g.tag("surviving-first=" + c16Bucket(len(c16fSurviving(ps, 0))))
	g.tag("surviving-last=" + c16Bucket(len(c16fSurviving(ps, g.R))))
	g.tag("mode=" + mode)
	g.tag("type=" + tn)
	var tags []string
	for t := range g.tags {
		tags = append(tags, t)
	}
	sort.Strings(tags)
	return &Case{Hist: h, Stream: "fill-between-renders", Tags: tags, NonTrivial: nontrivial,
		Meta: map[string]interface{}{"c16f": m}}
}

// c16fOracle: every render shows exactly the pairs that survive at its time.
func c16fOracle(m *c16fMeta, got []hist.Obs) string {
	if len(got) != len(m.Views) {
		return fmt.Sprintf("expected %d observations, got %d", len(m.Views), len(got))
	}
	for i, v := range m.Views {
		o := got[i]
		switch v {
		case "skip":
			continue
		case "imports":
			if o.Kind != "imports" {
				return "missing imports observation"
			}
			continue
		}
		if o.Kind != "write" {
			return fmt.Sprintf("render %d (%s) did not succeed: %s", i, v, o)
		}
		if msg := C16Check(o.Out, v, m.Exps[i]); msg != "" {
			return fmt.Sprintf("render %d (%s, step %d of the history of retained values): %s\n%q", i, v, m.F.Views[i].Step, msg, o.Out)
		}
	}
	return ""
}
