package props

import (
	"fmt"
	"sort"
	"strings"

	"github.com/dave/jennifer/jen"

	"verifharness/hist"
	"verifharness/term"
)

// C13, stream custom-half: Custom groups with only ONE delimiter.
//
// A group is a null item only when it has neither an opening nor a closing token and all its
// items are null.  `Custom(Options{Close: "{}"})`, `{Close: "()"}`, `{Close: ")"}` (empty Open,
// non-empty Close) and the Open-only ones are therefore never null, whatever they hold: their
// token is written and they take part in the separation of the enclosing list
// (`[]T{{}, y}`).  The sweep puts such a group - with no item, with only nil / Null() /
// empty-statement items, with one real item, with one real item among null items - at every
// position of every kind of enclosing list and as a member of a statement chain, renders the
// version with the null items and the version without them in two NoFormat Files and demands,
// besides equality of the pair and agreement with the model, exactly the raw text the
// documentation of Options prescribes (c13Lay below, hand-written; a dozen shapes are pinned
// as string literals on top).

// c13CloseOnly: option sets with exactly one delimiter (close-only first, then open-only).
var c13CloseOnly = []jen.Options{
	{Close: "{}"},
	{Close: "()"},
	{Close: ")"},
	{Close: ")", Separator: ","},
	{Close: "}", Separator: ",", Multi: true},
	{Close: "]", Separator: ";", Multi: true},
	{Close: "}", Multi: true},
	{Open: "("},
	{Open: "[", Separator: ","},
	{Open: "{", Multi: true},
	{Open: "<", Separator: ",", Multi: true},
}

// c13Lay is the documented layout of a group: Open, the non-null items joined by Separator
// (each on its own line when Multi), Close; a Multi group with a Close token and at least one
// item ends its last line (with a trailing comma when the separator is a comma).
func c13Lay(o jen.Options, items []string) string {
	var b strings.Builder
	b.WriteString(o.Open)
	for i, it := range items {
		if i > 0 {
			b.WriteString(o.Separator)
		}
		if o.Multi {
			b.WriteString("\n")
		}
		b.WriteString(it)
	}
	if o.Multi && len(items) > 0 && o.Close != "" {
		if o.Separator == "," {
			b.WriteString(",")
		}
		b.WriteString("\n")
	}
	b.WriteString(o.Close)
	return b.String()
}

// the enclosing lists: layout written from the README
var c13Enclosing = []struct {
	Name   string
	Method string // jen method; "Custom"; "stmt" = the statement chain
	Opts   jen.Options
	Prefix string // what the method writes before the list
}{
	{"Call", "Call", jen.Options{Open: "(", Close: ")", Separator: ","}, ""},
	{"Values", "Values", jen.Options{Open: "{", Close: "}", Separator: ","}, ""},
	{"Index", "Index", jen.Options{Open: "[", Close: "]", Separator: ":"}, ""},
	{"List", "List", jen.Options{Separator: ","}, ""},
	{"Block", "Block", jen.Options{Open: "{", Close: "}", Multi: true}, ""},
	{"Custom", "Custom", jen.Options{Open: "<", Close: ">", Separator: ";"}, ""},
	{"CustomMulti", "Custom", jen.Options{Open: "(", Close: ")", Separator: ",", Multi: true}, ""},
	{"CustomBare", "Custom", jen.Options{Separator: "|"}, ""},
	{"stmt", "stmt", jen.Options{Separator: " "}, ""},
}

type c13HalfShape struct {
	Name    string
	Real    bool  // the inner group holds one real item r0
	Nulls   []int // number of null items before / after the real item (or in total when !Real)
	Variant int
}

// c13HalfCase: inner option set o with the given content at position pos of an enclosing list
// of n real items (pos in 0..n).
func c13HalfCase(encIdx int, o jen.Options, sh c13HalfShape, n, pos, ctr int) *Case {
	enc := c13Enclosing[encIdx]
	inner := func(inject bool) *term.Group {
		var its []term.Node
		k := 0
		null := func(cnt int) {
			for j := 0; j < cnt && inject; j++ {
				its = append(its, c13Nullish(c13Kinds[(ctr+k)%len(c13Kinds)], ctr+k+sh.Variant, false))
				k++
			}
		}
		if len(sh.Nulls) > 0 {
			null(sh.Nulls[0])
		}
		if sh.Real {
			its = append(its, term.S(term.Id("r0")))
		}
		if len(sh.Nulls) > 1 {
			null(sh.Nulls[1])
		}
		return term.Custom(o, its...)
	}
	build := func(inject bool) *term.Stmt {
		var its []term.Node
		for s := 0; s <= n; s++ {
			if s == pos {
				if enc.Method == "stmt" {
					its = append(its, inner(inject))
				} else {
					its = append(its, term.S(inner(inject)))
				}
			}
			if s == n {
				break
			}
			if enc.Method == "stmt" {
				its = append(its, term.Id(c13ItemName(s)))
			} else {
				its = append(its, term.S(term.Id(c13ItemName(s))))
			}
		}
		switch enc.Method {
		case "stmt":
			return term.S(its...)
		case "Custom":
			return term.S(term.Custom(enc.Opts, its...))
		}
		return term.S(term.G(enc.Method, its...))
	}
	// expected raw text
	var innerItems []string
	if sh.Real {
		innerItems = []string{"r0"}
	}
	var outer []string
	for s := 0; s <= n; s++ {
		if s == pos {
			outer = append(outer, c13Lay(o, innerItems))
		}
		if s < n {
			outer = append(outer, c13ItemName(s))
		}
	}
	want := enc.Prefix + c13Lay(enc.Opts, outer)
	nn := 0
	for _, x := range sh.Nulls {
		nn += x
	}
	half := "custom-close-only"
	if o.Open != "" {
		half = "custom-open-only"
	}
	where := "pos=middle"
	switch {
	case n == 0:
		where = "pos=only"
	case pos == 0:
		where = "pos=first"
	case pos == n:
		where = "pos=last"
	}
	tags := []string{half, "enclosing=" + enc.Name, "inner=" + sh.Name, where,
		fmt.Sprintf("half=%q/%q/%q/multi=%v", o.Open, o.Close, o.Separator, o.Multi)}
	if enc.Method == "stmt" && pos > 0 {
		tags = append(tags, "non-first-member-of-statement")
	}
	sort.Strings(tags)
	return &Case{Hist: c13FileHist([]*term.Stmt{build(true)}, []*term.Stmt{build(false)}, false, false),
		Stream: "custom-half", Tags: tags,
		// non-trivial: always - the case is about the nullness of the half-delimited group itself
		// (with no item at all it must still be written and separated)
		NonTrivial: true,
		Meta:       map[string]interface{}{"kind": "half", "want": want, "nulls": nn}}
}

func c13HalfCases() []*Case {
	shapes := []c13HalfShape{
		{Name: "arity-0"},
		{Name: "one-null", Nulls: []int{1}},
		{Name: "nulls-only", Nulls: []int{3}},
		{Name: "one-real", Real: true},
		{Name: "real-after-nulls", Real: true, Nulls: []int{2, 0}},
		{Name: "real-among-nulls", Real: true, Nulls: []int{1, 1}},
	}
	var out []*Case
	ctr := 0
	for e := range c13Enclosing {
		for _, o := range c13CloseOnly {
			for _, sh := range shapes {
				for _, np := range [][2]int{{0, 0}, {1, 0}, {1, 1}, {2, 1}, {2, 2}, {3, 0}} {
					out = append(out, c13HalfCase(e, o, sh, np[0], np[1], ctr))
					ctr++
				}
			}
		}
	}
	// pinned shapes: the raw text as a string literal
	idx := func(name string) int {
		for i, e := range c13Enclosing {
			if e.Name == name {
				return i
			}
		}
		panic("c13: no enclosing " + name)
	}
	pins := []struct {
		enc    string
		o      jen.Options
		sh     c13HalfShape
		n, pos int
		want   string
	}{
		{"Values", jen.Options{Close: "{}"}, shapes[0], 1, 0, "{{},i0}"},     // []T{{}, y}
		{"Values", jen.Options{Close: "{}"}, shapes[2], 1, 0, "{{},i0}"},     // ... holding only nulls
		{"Values", jen.Options{Close: "{}"}, shapes[1], 2, 1, "{i0,{},i1}"},  //
		{"Values", jen.Options{Close: "{}"}, shapes[2], 1, 1, "{i0,{}}"},     //
		{"stmt", jen.Options{Close: "()"}, shapes[0], 1, 1, "i0 ()"},         // Id("f").Custom(Options{Close: "()"})
		{"stmt", jen.Options{Close: "()"}, shapes[2], 1, 1, "i0 ()"},         //
		{"stmt", jen.Options{Close: "()"}, shapes[1], 2, 1, "i0 () i1"},      //
		{"Call", jen.Options{Close: ")"}, shapes[2], 1, 0, "(),i0)"},         //
		{"Call", jen.Options{Close: ")"}, shapes[3], 1, 1, "(i0,r0))"},       //
		{"Index", jen.Options{Close: "()"}, shapes[1], 1, 0, "[():i0]"},      //
		{"List", jen.Options{Close: "{}"}, shapes[2], 2, 2, "i0,i1,{}"},      //
		{"List", jen.Options{Close: "{}"}, shapes[0], 0, 0, "{}"},            //
		{"Block", jen.Options{Close: "()"}, shapes[2], 1, 0, "{\n()\ni0\n}"}, //
		{"Block", jen.Options{Close: "()"}, shapes[0], 0, 0, "{\n()\n}"},     // (an empty Block would be `{}`)
		{"Custom", jen.Options{Close: ")"}, shapes[2], 1, 1, "<i0;)>"},       //
		{"Call", jen.Options{Open: "("}, shapes[2], 1, 0, "((,i0)"},          //
		{"Values", jen.Options{Open: "[", Separator: ","}, shapes[0], 1, 1, "{i0,[}"},
		{"Call", jen.Options{Close: "}", Separator: ",", Multi: true}, shapes[2], 1, 0, "(},i0)"},        // multi, no item: no line break
		{"Call", jen.Options{Close: "}", Separator: ",", Multi: true}, shapes[4], 1, 0, "(\nr0,\n},i0)"}, //
		{"stmt", jen.Options{Open: "{", Multi: true}, shapes[5], 1, 1, "i0 {\nr0"},
	}
	for i, p := range pins {
		c := c13HalfCase(idx(p.enc), p.o, p.sh, p.n, p.pos, 1000+i)
		c.Meta["pinned"] = p.want
		c.Tags = append(c.Tags, "pinned-raw-bytes")
		sort.Strings(c.Tags)
		out = append(out, c)
	}
	return out
}

func c13HalfOracle(c *Case, got []hist.Obs) string {
	if len(got) != 2 {
		return fmt.Sprintf("expected 2 observations, got %d", len(got))
	}
	if msg := c13SameRender(got[0], got[1]); msg != "" {
		return msg
	}
	want := c.Meta["want"].(string)
	if p, ok := c.Meta["pinned"].(string); ok {
		if p != want {
			return fmt.Sprintf("harness: the layout function gives %q for a shape pinned as %q", want, p)
		}
	}
	for i, o := range got {
		if o.Kind != "write" {
			return "a NoFormat render failed: " + o.String()
		}
		body, ok := c13Body(o.Out)
		if !ok {
			return fmt.Sprintf("unexpected file frame %q", o.Out)
		}
		if body != want {
			return fmt.Sprintf("render %d: raw text %q, want %q (a group with an opening or a closing token is never a null item)", i, body, want)
		}
	}
	return ""
}
