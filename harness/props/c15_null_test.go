package props

import (
	"math/rand"
	"strings"
	"testing"

	"verifharness/hist"
	"verifharness/term"
)

// Round 6 of C15: null items around commented items.

// the oracle on the outputs a lost protective newline gives (closing token inside the comment)
func TestC15OracleClosingTokenAfterNullItems(t *testing.T) {
	sp := &c15Spec{Places: []c15Place{{Site: 0, Text: "keep } )"}}}
	good := "package p\n\nfunc f() {\n\tx() // keep } )\n}\n"
	if v := c15Check(sp, c15Without, c15Without, good, good); v != "" {
		t.Fatalf("good output rejected: %s", v)
	}
	swallowed := "package p\n\nfunc f() {\n\tx() // keep } )}\n"
	if v := c15Check(sp, c15Without, c15Without, good, swallowed); v == "" {
		t.Errorf("closing brace inside the comment accepted (NoFormat output)")
	}
	c := c15Case(sp, "test")
	obs := []hist.Obs{{Kind: "write", Out: c15Without}, {Kind: "write", Out: c15Without}, {Kind: "fmterr", Out: swallowed}, {Kind: "write", Out: swallowed}}
	if v := (c15{}).Oracle(c, obs); !strings.Contains(v, "renders without the comments but not with them") {
		t.Errorf("format error of the commented program: %q", v)
	}
}

// the decorated programs: same containers, more sites; the spec's null items are in both files
func TestC15NullDecoration(t *testing.T) {
	for ti := range c15Templates {
		plain := c15Templates[ti].build()
		conts := c15Containers(plain)
		for gi := range conts {
			n := len(conts[gi].g.Items)
			sp := &c15Spec{Tmpl: ti, Nulls: []c15NullIns{{Grp: gi, At: n, Kind: 0}, {Grp: gi, At: n, Kind: 3}, {Grp: gi, At: 0, Kind: 4}}}
			prog := sp.build()
			dc := c15Containers(prog)
			if len(dc) != len(conts) {
				t.Fatalf("template %d: %d containers after decoration, %d before", ti, len(dc), len(conts))
			}
			items := dc[gi].g.Items
			if len(items) != n+3 || !termNull(items[0]) || !termNull(items[n+1]) || !termNull(items[n+2]) {
				t.Fatalf("template %d group %d: null items not where the spec puts them", ti, gi)
			}
			for j := 1; j <= n; j++ {
				if items[j] != conts[gi].g.Items[j-1] && termNull(items[j]) != termNull(conts[gi].g.Items[j-1]) {
					t.Fatalf("template %d group %d: own items disturbed", ti, gi)
				}
			}
			p0 := c15Templates[ti].build()
			if a, b := len(c15Sites(&prog)), len(c15Sites(&p0)); a <= b {
				t.Errorf("template %d group %d: %d sites decorated, %d plain", ti, gi, a, b)
			}
		}
	}
}

// one comment per line: in a case body (no closing token) whose last items render nothing, a
// comment at the end of the last RENDERED item shares its line with a comment appended to the
// case statement; the site lists record that.
func TestC15ConflictsSeeThroughNullItems(t *testing.T) {
	body := term.G("Block", c15Call("a"), term.S(term.Null()), term.Nil{})
	cs := term.S(term.G("Case", term.S(term.Lit(1))), body)
	prog := []*term.Stmt{term.S(term.Named("Func"), term.Id("f"), term.G("Params"), term.G("Block",
		term.S(term.G("Switch"), term.G("Block", cs))))}
	sites := c15Sites(&prog)
	var caseEnd, callEnd = -1, -1
	for i, s := range sites {
		if !s.own && s.stmt == cs {
			caseEnd = i
		}
		if !s.own && s.stmt == body.Items[0] {
			callEnd = i
		}
	}
	if caseEnd < 0 || callEnd < 0 {
		t.Fatal("sites not found")
	}
	found := false
	for _, o := range sites[caseEnd].conflicts {
		found = found || o == callEnd
	}
	if !found {
		t.Errorf("the end of the case statement does not conflict with the end of its last rendered item: %v", sites[caseEnd].conflicts)
	}
	if len(sites[caseEnd].conflicts) < 5 { // a() end, own x3 after it, Null() end
		t.Errorf("conflicts %v: the sites after the last rendered item are missing", sites[caseEnd].conflicts)
	}
}

// the stream reaches the shape "comment last rendered, null items follow" in every kind of
// container, for both kinds of site, chained and through random forms; clean tree: quiet
func TestC15NullAroundStream(t *testing.T) {
	r := rand.New(rand.NewSource(5))
	tags := map[string]int{}
	n := 0
	for _, c := range c15Round6Streams(r, "quick") {
		for _, tg := range c.Tags {
			tags[c.Stream+":"+tg]++
		}
		if n%9 == 0 {
			w := hist.NewWorld()
			if cfg, ok := c.Meta["world"].(func(*hist.World)); ok {
				cfg(w)
			}
			if v := (c15{}).Oracle(c, w.Exec(c.Hist)); v != "" {
				t.Errorf("%s case fails on the unchanged tree: %s\n%s", c.Stream, v, c.Hist.Sexp())
			}
		}
		n++
	}
	for _, want := range []string{"comment-last-rendered+nulls-follow=block/line", "comment-last-rendered+nulls-follow=casebody/line", "comment-last-rendered+nulls-follow=defs/line",
		"comment-last-rendered+nulls-follow=struct/line", "comment-last-rendered+nulls-follow=interface/line", "comment-last-rendered+nulls-follow=own-item",
		"comment-last-rendered+nulls-follow=item-end", "forms=random", "forms=chained", "nulls-following=3", "comment-at-the-end-of-a-null-item"} {
		if tags["null-around:"+want] < 20 {
			t.Errorf("tag %s: %d cases", want, tags["null-around:"+want])
		}
	}
	for _, z := range c15Nullishes {
		if tags["null-around:nullish="+z.name] < 50 {
			t.Errorf("nullish kind %s: %d cases", z.name, tags["null-around:nullish="+z.name])
		}
	}
	for _, want := range []string{"special=percent@comment", "special=percent@header", "special=percent@package-comment", "special=percent@canonical-path",
		"special=percent@cgo-preamble/raw-block-multi-line", "special=percent@cgo-preamble/raw-line", "special=backslash@cgo-preamble/plain-one-line", "special=dollar@header", "special=backquote@comment"} {
		if tags["special:"+want] < 5 {
			t.Errorf("tag %s: %d cases", want, tags["special:"+want])
		}
	}
}
