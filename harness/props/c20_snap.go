package props

import (
	"fmt"
	"io"
	"math/rand"
	"reflect"
	"sort"
	"strings"

	"github.com/dave/jennifer/jen"

	"verifharness/hist"
	"verifharness/term"
)

// C20, streams case-clause and clone-inside-sibling ("snapshot" histories).
//
// The (heap) lines of c20.go cannot say that a statement VARIABLE is used as an item of a
// group (their items are fresh code values).  Here a history over statement variables is
// executed on the implementation as it stands (new, chained appends, Clone, Render), and the
// model reads, for every render, the SNAPSHOT of the rendered variable as an ordinary term:
// a clone is the statement whose first item is (the snapshot of) its original, a group that
// holds variables holds their snapshots; a group keeps its term node - hence its id, which
// stands for the identity of the *jen.Group - in every snapshot.
//
//   - case-clause: originals whose TOP LEVEL holds a case clause - Case(x).Block(stmts...),
//     Default().Block(...), Case(a, b).Block() with an empty body, also preceded / followed by
//     other tokens, built by one or several appends - with chains of UNMODIFIED clones (clone,
//     clone of the clone, ... depth up to 5) and sibling clones.  Original and clones are
//     rendered alone (Statement.Render) and as the only item and as the items of
//     Switch().Block(...): all must render identically.  Tokens are appended only to the
//     ORIGINAL afterwards (they show through every clone); nothing is ever appended to a clone
//     here: a Block appended to a clone of `case x:` is a different situation (its previous
//     item is the whole original, not the Case group; regression block-after-cloned-case), the
//     property promises nothing about it.
//   - clone-inside-sibling: sibling clones of one original (and clones of those), where a
//     clone is handed as an ITEM to a group appended to a sibling created later
//     (c1 := o.Clone(); c2 := o.Clone().Op("-").Parens(c1)), further tokens are appended after
//     the group, to the clone that sits inside the group and to the original; every variable
//     is rendered after every step.
//
// References point from later to earlier variables only, so no statement contains itself.

type c20sKid struct {
	Ref  int     // >= 0: the statement variable itself is the item
	Item c20Item // otherwise: a fresh statement value
	Wrap bool    // (c20_ctx.go) added through Group.Add inside a callback: the group holds a new statement holding the value
}

type c20sItem struct {
	Plain *c20Item // a fresh token / group / statement value, or
	Group string   // a group method holding kids
	Kids  []c20sKid
	node  *term.Group // the term node of the group: the same in every snapshot
}

type c20sOp struct {
	Kind  string // new | append | clone | render | renderin
	V     int
	From  int
	Items []c20sItem // append: one chained call per item
	Vars  []int      // renderin: Switch().Block(vars...) built afresh and rendered
}

// hand-written layout of the groups used here: open, close, separator, one item per line
var c20sGroups = map[string]struct {
	Open, Close, Sep string
	Multi            bool
}{
	"Parens": {"(", ")", "", false}, "Call": {"(", ")", ",", false}, "Index": {"[", "]", ":", false},
	"Values": {"{", "}", ",", false}, "Params": {"(", ")", ",", false},
	"Block": {"{", "}", "", true}, "Case": {"case ", ":", ",", false},
	"List": {"", "", ",", false}, // (c20_ctx.go) no delimiters: null when all its items are
}

// ---- the oracle's list model ----

type c20sAbs struct {
	parent *c20sAbs
	own    []c20sItem
	vars   *[]*c20sAbs
}

func c20sLay(open, close, sep string, multi bool, kids []string) string {
	var b strings.Builder
	b.WriteString(open)
	for i, k := range kids {
		if i > 0 {
			b.WriteString(sep)
		}
		if multi {
			b.WriteString("\n")
		}
		b.WriteString(k)
	}
	if multi && len(kids) > 0 && close != "" {
		b.WriteString("\n")
	}
	b.WriteString(close)
	return b.String()
}

func c20sIsCaseHead(it *c20sItem) bool {
	if it == nil {
		return false
	}
	if it.Group == "Case" {
		return true
	}
	if it.Plain != nil {
		if t, ok := it.Plain.Node.(term.Tok); ok && t.Kind == "named" && t.S == "Default" {
			return true
		}
	}
	return false
}

// text: the non-null items joined by single spaces, the original (as it is now) counting as
// one item.  A Block that directly follows a Case group or the `default` keyword IN THE SAME
// statement is written without braces.
func (a *c20sAbs) text() (string, bool) {
	var parts []string
	if a.parent != nil {
		if t, null := a.parent.text(); !null {
			parts = append(parts, t)
		}
	}
	for i := range a.own {
		it := &a.own[i]
		if it.Plain != nil {
			if !it.Plain.Null {
				parts = append(parts, it.Plain.Text)
			}
			continue
		}
		var prev *c20sItem // the previous item of the statement's own slice (a clone's slice starts with its original)
		if i > 0 {
			prev = &a.own[i-1]
		}
		if t, null := a.groupText(it, prev); !null {
			parts = append(parts, t)
		}
	}
	return strings.Join(parts, " "), len(parts) == 0
}

// groupText: a group item of a (prev: the item in front of it in the same statement; nil when
// the group is rendered on its own).
func (a *c20sAbs) groupText(it, prev *c20sItem) (string, bool) {
	var kids []string
	for _, k := range it.Kids {
		if k.Ref >= 0 {
			if t, null := (*a.vars)[k.Ref].text(); !null {
				kids = append(kids, t)
			}
		} else if !k.Item.Null {
			kids = append(kids, k.Item.Text)
		}
	}
	g := c20sGroups[it.Group]
	open, close := g.Open, g.Close
	if open == "" && close == "" && len(kids) == 0 {
		return "", true // a group without delimiters whose items are all null is null
	}
	if it.Group == "Block" && c20sIsCaseHead(prev) {
		open, close = "", ""
	}
	return c20sLay(open, close, g.Sep, g.Multi, kids), false
}

// deps: the variables whose contents a shows (itself, its originals, the variables inside its groups)
func (a *c20sAbs) deps(seen map[*c20sAbs]bool) {
	if a == nil || seen[a] {
		return
	}
	seen[a] = true
	a.parent.deps(seen)
	for _, it := range a.own {
		for _, k := range it.Kids {
			if k.Ref >= 0 {
				(*a.vars)[k.Ref].deps(seen)
			}
		}
	}
}

// root: the statement an unmodified clone (of an unmodified clone ...) must render like
func (a *c20sAbs) root() (*c20sAbs, int) {
	d := 0
	for a.parent != nil && len(a.own) == 0 {
		a = a.parent
		d++
	}
	return a, d
}

func c20sReplay(ops []c20sOp, visit func(i int, op c20sOp, vars []*c20sAbs)) {
	var vars []*c20sAbs
	for i, op := range ops {
		switch op.Kind {
		case "new":
			vars = append(vars, &c20sAbs{vars: &vars})
		case "clone":
			vars = append(vars, &c20sAbs{parent: vars[op.From], vars: &vars})
		case "append":
			vars[op.V].own = append(vars[op.V].own, op.Items...)
		}
		visit(i, op, vars)
	}
}

func c20sSwitchText(vars []*c20sAbs, vs []int) string {
	var kids []string
	for _, v := range vs {
		if t, null := vars[v].text(); !null {
			kids = append(kids, t)
		}
	}
	// Switch() writes `switch ` (its opening token), the statement chain a space, then the Block
	return "switch " + " " + c20sLay("{", "}", "", true, kids)
}

func c20sOracle(c *Case, got []hist.Obs) string {
	ops := c.Meta["sops"].([]c20sOp)
	type seen struct {
		obs   hist.Obs
		valid bool
	}
	last := map[string]*seen{} // "v" alone, "in:v" as the only clause of a switch
	msg := ""
	k := 0
	check := func(i int, what, raw string, g hist.Obs) string {
		f := c20Format(raw)
		switch {
		case g.Kind == "write" && f.ok:
			if g.Out != f.out {
				return fmt.Sprintf("step %d: %s renders %q, its list-model value is %q", i, what, g.Out, f.out)
			}
		case g.Kind == "fmterr" && !f.ok:
			if g.Out != raw {
				return fmt.Sprintf("step %d: %s renders (unformattable) %q, its list-model value is %q", i, what, g.Out, raw)
			}
		default:
			return fmt.Sprintf("step %d: %s: got %s, list-model value %q (formats: %v)", i, what, g, raw, f.ok)
		}
		return ""
	}
	index := func(vars []*c20sAbs, a *c20sAbs) int {
		for j, x := range vars {
			if x == a {
				return j
			}
		}
		return -1
	}
	c20sReplay(ops, func(i int, op c20sOp, vars []*c20sAbs) {
		if msg != "" {
			return
		}
		switch op.Kind {
		case "append":
			if len(op.Items) == 0 {
				return
			}
			for j, x := range vars {
				d := map[*c20sAbs]bool{}
				x.deps(d)
				if d[vars[op.V]] {
					for _, key := range []string{fmt.Sprint(j), fmt.Sprint("in:", j)} {
						if s := last[key]; s != nil {
							s.valid = false
						}
					}
				}
			}
		case "render", "renderin":
			if k >= len(got) {
				msg = fmt.Sprintf("step %d: no observation", i)
				return
			}
			g := got[k]
			k++
			if g.Kind == "panic" {
				msg = fmt.Sprintf("step %d: render panicked: %s", i, g.Msg)
				return
			}
			var raw, what, key, prefix string
			v := op.V
			if op.Kind == "render" {
				raw, _ = vars[v].text()
				what, key = fmt.Sprintf("variable %d", v), fmt.Sprint(v)
			} else {
				raw = c20sSwitchText(vars, op.Vars)
				what = fmt.Sprintf("Switch().Block(variables %v)", op.Vars)
				if len(op.Vars) != 1 {
					msg = check(i, what, raw, g)
					return
				}
				v = op.Vars[0]
				key, prefix = fmt.Sprint("in:", v), "in:"
			}
			if msg = check(i, what, raw, g); msg != "" {
				return
			}
			if s := last[key]; s != nil && s.valid && !hist.SameObs(s.obs, g) {
				msg = fmt.Sprintf("step %d: output of %s changed from %s to %s although nothing was appended to it, to its originals or to a statement inside it", i, what, s.obs, g)
				return
			}
			// an unmodified clone (at any depth of cloning) renders exactly like its original
			if rt, d := vars[v].root(); d > 0 {
				j := index(vars, rt)
				if s := last[prefix+fmt.Sprint(j)]; s != nil && s.valid && !hist.SameObs(s.obs, g) {
					msg = fmt.Sprintf("step %d: %s, an unmodified clone at depth %d of variable %d, renders %s; its original renders %s", i, what, d, j, g, s.obs)
					return
				}
			}
			last[key] = &seen{g, true}
		}
	})
	if msg != "" {
		return msg
	}
	if k != len(got) {
		return fmt.Sprintf("%d observations for %d renders", len(got), k)
	}
	return ""
}

// ---- serialisation (snapshots) and execution ----

type c20sExec struct {
	ops  []c20sOp
	last int
	pos  int
	vars []*jen.Statement
	bd   *term.Builder
}

func (ex *c20sExec) upto(i int) {
	if ex.bd == nil || i < ex.pos {
		ex.pos, ex.vars, ex.bd = 0, nil, term.NewBuilder()
	}
	for ; ex.pos < i; ex.pos++ {
		op := ex.ops[ex.pos]
		switch op.Kind {
		case "new":
			ex.vars = append(ex.vars, &jen.Statement{})
		case "clone":
			ex.vars = append(ex.vars, ex.vars[op.From].Clone())
		case "append":
			s := ex.vars[op.V]
			for _, it := range op.Items {
				if it.Plain != nil {
					ex.bd.Append(s, it.Plain.Node)
					continue
				}
				m := reflect.ValueOf(s).MethodByName(it.Group)
				in := make([]reflect.Value, len(it.Kids))
				for j, k := range it.Kids {
					var c jen.Code
					if k.Ref >= 0 {
						c = ex.vars[k.Ref] // the statement variable itself
					} else {
						c = ex.bd.Code(k.Item.Node)
					}
					in[j] = reflect.ValueOf(&c).Elem()
				}
				m.Call(in)
			}
		}
	}
}

func (ex *c20sExec) render(i int) (o hist.Obs) {
	defer func() {
		if r := recover(); r != nil {
			o = hist.Obs{Kind: "panic", Msg: "while building: " + fmt.Sprint(r)}
		}
		if i == ex.last {
			ex.vars, ex.bd = nil, nil
		}
	}()
	ex.upto(i)
	ex.pos = i + 1
	op := ex.ops[i]
	var s *jen.Statement
	if op.Kind == "render" {
		s = ex.vars[op.V]
	} else {
		items := make([]jen.Code, len(op.Vars))
		for j, v := range op.Vars {
			items[j] = ex.vars[v]
		}
		s = jen.Switch().Block(items...)
	}
	if c20sContainsItself(reflect.ValueOf(s), map[uintptr]bool{}) {
		// rendering would not terminate (a fatal stack overflow cannot be recovered from)
		return hist.Obs{Kind: "bad", Msg: "the statement contains itself: a history in which later variables only hold earlier ones has produced a cycle"}
	}
	return c13RenderObs(func(w io.Writer) error { return s.Render(w) })
}

// c20sContainsItself walks the jen values (statements, groups, dicts) reachable from v and
// reports whether a pointer is met again on the path that leads to it.
func c20sContainsItself(v reflect.Value, path map[uintptr]bool) bool {
	switch v.Kind() {
	case reflect.Interface:
		return !v.IsNil() && c20sContainsItself(v.Elem(), path)
	case reflect.Ptr:
		if v.IsNil() {
			return false
		}
		p := v.Pointer()
		if path[p] {
			return true
		}
		path[p] = true
		defer delete(path, p)
		return c20sContainsItself(v.Elem(), path)
	case reflect.Slice, reflect.Array:
		for i := 0; i < v.Len(); i++ {
			if c20sContainsItself(v.Index(i), path) {
				return true
			}
		}
	case reflect.Struct:
		for i := 0; i < v.NumField(); i++ {
			if c20sContainsItself(v.Field(i), path) {
				return true
			}
		}
	case reflect.Map:
		for it := v.MapRange(); it.Next(); {
			if c20sContainsItself(it.Key(), path) || c20sContainsItself(it.Value(), path) {
				return true
			}
		}
	}
	return false
}

func c20sCase(ops []c20sOp, stream string, extra []string) *Case {
	// the groups get their term nodes here (ops may be shared between cases only before this call)
	ops = append([]c20sOp{}, ops...)
	for i := range ops {
		if ops[i].Kind == "append" {
			its := append([]c20sItem{}, ops[i].Items...)
			for j := range its {
				if its[j].Plain == nil {
					its[j].node = term.G(its[j].Group)
				}
			}
			ops[i].Items = its
		}
	}
	ex := &c20sExec{ops: ops}
	z := term.NewSer()
	var h hist.History
	set := map[string]bool{}
	for _, t := range extra {
		set[t] = true
	}
	var snap func(vars []*c20sAbs, a *c20sAbs) *term.Stmt
	snap = func(vars []*c20sAbs, a *c20sAbs) *term.Stmt {
		st := term.S()
		if a.parent != nil {
			st.Items = append(st.Items, snap(vars, a.parent))
		}
		for _, it := range a.own {
			if it.Plain != nil {
				st.Items = append(st.Items, it.Plain.Node)
				continue
			}
			it.node.Items = it.node.Items[:0]
			for _, k := range it.Kids {
				if k.Ref >= 0 {
					it.node.Items = append(it.node.Items, snap(vars, vars[k.Ref]))
				} else {
					it.node.Items = append(it.node.Items, k.Item.Node)
				}
			}
			st.Items = append(st.Items, it.node)
		}
		return st
	}
	cloned := map[int]bool{}
	hasClone, pending, observed := false, false, false
	maxDepth := 0
	c20sReplay(ops, func(i int, op c20sOp, vars []*c20sAbs) {
		switch op.Kind {
		case "clone":
			hasClone = true
			cloned[op.From] = true
			d := 0
			for a := vars[op.V]; a.parent != nil; a = a.parent {
				d++
			}
			if d > maxDepth {
				maxDepth = d
			}
		case "append":
			if hasClone && len(op.Items) > 0 && (vars[op.V].parent != nil || cloned[op.V]) {
				pending = true
			}
			for _, it := range op.Items {
				for _, k := range it.Kids {
					if k.Ref >= 0 && vars[k.Ref].parent != nil && vars[op.V].parent != nil {
						set["clone-inside-sibling"] = true
						if vars[k.Ref].parent.parent != nil {
							set["clone-of-clone-inside-group"] = true
						}
					}
				}
			}
		case "render", "renderin":
			if pending {
				observed = true
			}
			var st *term.Stmt
			if op.Kind == "render" {
				st = snap(vars, vars[op.V])
				if _, d := vars[op.V].root(); d > 0 {
					set[fmt.Sprintf("unmodified-clone-depth=%d", d)] = true
					set["unmodified-clone-rendered"] = true
				}
			} else {
				var items []term.Node
				for _, v := range op.Vars {
					items = append(items, snap(vars, vars[v]))
					if _, d := vars[v].root(); d > 0 {
						set[fmt.Sprintf("unmodified-clone-depth=%d", d)] = true
						set["unmodified-clone-in-switch"] = true
					}
				}
				st = term.S(term.G("Switch"), term.G("Block", items...))
			}
			idx := i
			ex.last = i
			h = append(h, hist.Op{Kind: "ext", A: "(rplain " + z.Sexp(st) + " 0)", Run: func() hist.Obs { return ex.render(idx) }})
		}
	})
	set[fmt.Sprintf("clone-depth=%d", maxDepth)] = true
	var tags []string
	for t := range set {
		tags = append(tags, t)
	}
	sort.Strings(tags)
	// non-trivial (case-clause): a clone is rendered; (clone-inside-sibling) as in c20Measure: a
	// clone, a non-empty append after it to a clone or a cloned statement, a render after that
	nt := hasClone && (observed || set["unmodified-clone-rendered"])
	return &Case{Hist: h, Stream: stream, Tags: tags, NonTrivial: nt,
		Meta: map[string]interface{}{"kind": "snap", "sops": ops}}
}

// ---- generation ----

func c20sPlain(it c20Item) c20sItem { return c20sItem{Plain: &it} }

func c20sId(s string) c20sItem { return c20sPlain(c20Item{Node: term.Id(s), Text: s}) }

// a fresh expression / simple statement usable inside Case(...) and Block(...)
func c20sExpr(r *rand.Rand) c20Item {
	switch r.Intn(4) {
	case 0:
		v := r.Intn(100)
		return c20Item{Node: term.S(term.Lit(v)), Text: fmt.Sprint(v)}
	case 1:
		a, b := pick(r, c20Ids), pick(r, c20Ids)
		return c20Item{Node: term.S(term.Id(a), term.Op("+"), term.Id(b)), Text: a + " + " + b}
	default:
		a := pick(r, c20Ids)
		return c20Item{Node: term.S(term.Id(a)), Text: a}
	}
}

func c20sSimple(r *rand.Rand) c20Item {
	a := pick(r, c20Ids)
	switch r.Intn(3) {
	case 0:
		return c20Item{Node: term.S(term.Id(a), term.G("Call")), Text: a + " ()"}
	case 1:
		return c20Item{Node: term.S(term.Id(a), term.Op("++")), Text: a + " ++"}
	default:
		return c20Item{Node: term.S(term.Named("Break")), Text: "break"}
	}
}

func c20sKids(r *rand.Rand, n int, f func(*rand.Rand) c20Item) []c20sKid {
	var out []c20sKid
	for i := 0; i < n; i++ {
		out = append(out, c20sKid{Ref: -1, Item: f(r)})
	}
	return out
}

// c20sClause: the items of one case clause.  form: 0 Case(x..).Block(stmts..), 1 Default().Block(..),
// 2 Case(a, b).Block() with an empty body
func c20sClause(r *rand.Rand, form int) []c20sItem {
	switch form {
	case 1:
		return []c20sItem{c20sPlain(c20Item{Node: term.Named("Default"), Text: "default:"}),
			{Group: "Block", Kids: c20sKids(r, r.Intn(4), c20sSimple)}}
	case 2:
		return []c20sItem{{Group: "Case", Kids: c20sKids(r, 2, c20sExpr)}, {Group: "Block"}}
	}
	return []c20sItem{{Group: "Case", Kids: c20sKids(r, 1+r.Intn(3), c20sExpr)},
		{Group: "Block", Kids: c20sKids(r, 1+r.Intn(3), c20sSimple)}}
}

var c20sLine = c20Item{Node: term.Line(), Text: "\n"}

// c20sCaseClause draws one history of the case-clause stream.
//
//	form    0..2 as in c20sClause
//	before  0 nothing, 1 Null(), 2 Line(), 3 an identifier and an operator (`lbl :`)
//	after   0 nothing, 1 Null(), 2 Line() + call, 3 a second clause in the same statement
//	split   the original is built by several appends (the Block in its own append)
//	late    the Block (or the tokens that follow) reach the ORIGINAL only after it was cloned
func c20sCaseClause(r *rand.Rand, form, before, after int, split, late bool, depth int) *Case {
	var head, tail []c20sItem
	switch before {
	case 1:
		head = []c20sItem{c20sPlain(c20Item{Node: term.Null(), Null: true})}
	case 2:
		head = []c20sItem{c20sPlain(c20sLine)}
	case 3:
		head = []c20sItem{c20sId("lbl"), c20sPlain(c20Item{Node: term.Op(":"), Text: ":"})}
	}
	clause := c20sClause(r, form)
	switch after {
	case 1:
		tail = []c20sItem{c20sPlain(c20Item{Node: term.Null(), Null: true})}
	case 2:
		tail = []c20sItem{c20sPlain(c20sLine), c20sPlain(c20sSimple(r))}
	case 3:
		tail = append([]c20sItem{c20sPlain(c20sLine)}, c20sClause(r, r.Intn(2))...)
	}
	ops := []c20sOp{{Kind: "new", V: 0}}
	first := append(append([]c20sItem{}, head...), clause[0])
	rest := append([]c20sItem{clause[1]}, tail...)
	var lateItems []c20sItem
	switch {
	case late:
		ops = append(ops, c20sOp{Kind: "append", V: 0, Items: first})
		lateItems = rest
	case split:
		ops = append(ops, c20sOp{Kind: "append", V: 0, Items: first}, c20sOp{Kind: "append", V: 0, Items: rest[:1]})
		if len(rest) > 1 {
			ops = append(ops, c20sOp{Kind: "append", V: 0, Items: rest[1:]})
		}
	default:
		ops = append(ops, c20sOp{Kind: "append", V: 0, Items: append(first, rest...)})
	}
	// the chain of unmodified clones 1..depth, then two siblings of the original and of clone 1
	nv := 1
	for d := 1; d <= depth; d++ {
		ops = append(ops, c20sOp{Kind: "clone", V: nv, From: nv - 1})
		nv++
	}
	ops = append(ops, c20sOp{Kind: "clone", V: nv, From: 0})
	nv++
	if depth >= 1 {
		ops = append(ops, c20sOp{Kind: "clone", V: nv, From: 1})
		nv++
	}
	all := func() {
		var vs []int
		for v := 0; v < nv; v++ {
			ops = append(ops, c20sOp{Kind: "render", V: v})
			vs = append(vs, v)
		}
		for v := 0; v < nv; v++ {
			ops = append(ops, c20sOp{Kind: "renderin", Vars: []int{v}})
		}
		ops = append(ops, c20sOp{Kind: "renderin", Vars: vs})
		if nv >= 3 {
			ops = append(ops, c20sOp{Kind: "renderin", Vars: []int{nv - 1, 0, nv - 2}})
		}
	}
	all()
	tags := []string{"case-clause-original", fmt.Sprintf("clause-form=%d", form), fmt.Sprintf("before=%d", before), fmt.Sprintf("after=%d", after)}
	if form == 2 {
		tags = append(tags, "empty-case-body")
	}
	if late {
		ops = append(ops, c20sOp{Kind: "append", V: 0, Items: lateItems})
		all()
		tags = append(tags, "block-reaches-original-after-cloning")
	}
	if r.Intn(3) == 0 {
		// more tokens to the ORIGINAL: they show through every clone
		ops = append(ops, c20sOp{Kind: "append", V: 0, Items: []c20sItem{c20sPlain(c20sLine), c20sPlain(c20sSimple(r))}})
		all()
		tags = append(tags, "original-extended-after-cloning")
	}
	if split {
		tags = append(tags, "original-built-by-several-appends")
	}
	return c20sCase(ops, "case-clause", tags)
}

// c20sTok: a plain item for the sibling stream (visible tokens and groups, as in c20Tok)
func c20sTok(r *rand.Rand) c20sItem {
	for {
		it := c20Tok(r, 0)
		if !it.Null || r.Intn(4) == 0 {
			return c20sPlain(it)
		}
	}
}

// c20sSiblings draws one history of the clone-inside-sibling stream.
func c20sSiblings(r *rand.Rand) *Case {
	ops := []c20sOp{{Kind: "new", V: 0}}
	var o []c20sItem
	for j := r.Intn(7); j > 0; j-- {
		o = append(o, c20sTok(r))
	}
	ops = append(ops, c20sOp{Kind: "append", V: 0, Items: o})
	nv := 1
	isClone := []bool{false}
	all := func() {
		for v := 0; v < nv; v++ {
			ops = append(ops, c20sOp{Kind: "render", V: v})
		}
	}
	clone := func(from int) {
		ops = append(ops, c20sOp{Kind: "clone", V: nv, From: from})
		nv++
		isClone = append(isClone, true)
	}
	clone(0)
	clone(0)
	all()
	groups := []string{"Parens", "Call", "Index", "Values", "Params", "Block"}
	tags := map[string]bool{}
	for step := 3 + r.Intn(8); step > 0; step-- {
		switch n := r.Intn(10); {
		case n < 2 && nv < 7:
			from := r.Intn(nv)
			clone(from)
		case n < 7:
			// a group holding earlier clones, appended to a later clone, and tokens after it
			v := 1 + r.Intn(nv-1)
			for tries := 0; tries < 4 && v < 2; tries++ {
				v = 1 + r.Intn(nv-1)
			}
			var its []c20sItem
			for j := r.Intn(3); j > 0; j-- {
				its = append(its, c20sTok(r))
			}
			m := groups[r.Intn(len(groups))]
			g := c20sItem{Group: m}
			nk := 1
			if m != "Parens" {
				nk = 1 + r.Intn(3)
			}
			for j := 0; j < nk; j++ {
				if v >= 2 && (j == 0 || r.Intn(2) == 0) {
					ref := 1 + r.Intn(v-1) // an earlier clone (never the variable itself or a later one)
					if r.Intn(6) == 0 {
						ref = 0 // the original inside a group of its clone
						tags["original-inside-clone-group"] = true
					}
					g.Kids = append(g.Kids, c20sKid{Ref: ref})
				} else {
					g.Kids = append(g.Kids, c20sKid{Ref: -1, Item: c20sExpr(r)})
				}
			}
			its = append(its, g)
			for j := r.Intn(3); j > 0; j-- {
				its = append(its, c20sTok(r))
				tags["tokens-after-group"] = true
			}
			ops = append(ops, c20sOp{Kind: "append", V: v, Items: its})
		default:
			// plain tokens to any variable: the original, a clone that sits inside a group, ...
			v := r.Intn(nv)
			var its []c20sItem
			for j := 1 + r.Intn(3); j > 0; j-- {
				its = append(its, c20sTok(r))
			}
			ops = append(ops, c20sOp{Kind: "append", V: v, Items: its})
			for _, op := range ops {
				for _, it := range op.Items {
					for _, k := range it.Kids {
						if k.Ref == v {
							tags["appended-to-a-statement-inside-a-group"] = true
						}
					}
				}
			}
		}
		all()
	}
	var ts []string
	for t := range tags {
		ts = append(ts, t)
	}
	return c20sCase(ops, "clone-inside-sibling", ts)
}

func c20sGenerate(r *rand.Rand, t string) []*Case {
	var out []*Case
	// case-clause sweep: form x before x after x (one append | several | Block after cloning) x depth 1..5
	for form := 0; form < 3; form++ {
		for before := 0; before < 4; before++ {
			for after := 0; after < 4; after++ {
				for build := 0; build < 3; build++ {
					for rep := 0; rep < tier(t, 1, 8); rep++ {
						depth := 1 + (form+before+after+build+rep)%5
						out = append(out, c20sCaseClause(r, form, before, after, build == 1, build == 2, depth))
					}
				}
			}
		}
	}
	// the shapes of the task, literally: Case(x).Block(stmts), Default().Block(..), Case(a, b).Block()
	for form := 0; form < 3; form++ {
		for depth := 1; depth <= 5; depth++ {
			out = append(out, c20sCaseClause(r, form, 0, 0, false, false, depth))
		}
	}
	n := tier(t, 600, 20000)
	for i := 0; i < n; i++ {
		out = append(out, c20sSiblings(r))
	}
	return out
}

// c20sShrink: cut the tail after a render, drop one append, drop one render.
func c20sShrink(c *Case) []*Case {
	ops := c.Meta["sops"].([]c20sOp)
	var out []*Case
	// (the term nodes of the groups are made again by c20sCase)
	for i := len(ops) - 1; i > 0; i-- {
		if ops[i].Kind == "render" || ops[i].Kind == "renderin" {
			out = append(out, c20sCase(ops[:i], "shrunk", nil))
			break
		}
	}
	for i := range ops {
		switch ops[i].Kind {
		case "render", "renderin", "append":
			o := append(append([]c20sOp{}, ops[:i]...), ops[i+1:]...)
			out = append(out, c20sCase(o, "shrunk", nil))
		}
	}
	return out
}
