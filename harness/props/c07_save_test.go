package props

import (
	"math/rand"
	"strings"
	"testing"

	"verifharness/hist"
)

// The decision of stream save-over-earlier rejects a file that kept the tail of an earlier
// content, a file that was not rewritten, and a failed Save; it accepts exactly the rendered bytes.
func TestC07SaveOverDecide(t *testing.T) {
	w := "package p\n\nvar n int\n"
	e := c07Earlier{name: "extended by a declaration"}
	if d := c07SaveOverDecide(e, hist.Obs{Kind: "save", Out: w}, w); d != "" {
		t.Fatalf("good output rejected: %s", d)
	}
	for _, bad := range []hist.Obs{
		{Kind: "save", Out: w + "\nfunc Reset() {\n\tn = 0\n}\n"},
		{Kind: "save", Out: w[:len(w)-1]},
		{Kind: "save", Failed: true},
		{Kind: "fmterr", Out: w},
	} {
		if d := c07SaveOverDecide(e, bad, w); d == "" {
			t.Fatalf("bad outcome accepted: %s", bad.String())
		}
	}
	es := c07EarlierContents(w)
	longer, prefix := 0, 0
	for _, x := range es {
		if x.content != nil && len(*x.content) > len(w) {
			longer++
			if strings.HasPrefix(*x.content, w) {
				prefix++
			}
		}
	}
	if len(es) < 10 || longer < 4 || prefix < 3 {
		t.Fatalf("earlier contents: %d in all, %d longer, %d extending the output", len(es), longer, prefix)
	}
}

// The unchanged implementation passes the whole check (main run into the case's directory first).
func TestC07SaveOverUnchanged(t *testing.T) {
	r := rand.New(rand.NewSource(3))
	for i := 0; i < 10; i++ {
		c := c07SaveOverCase(r)
		w := hist.NewWorld()
		w.SavePath = c.Meta["savepath"].(func(string) string)
		got := w.Exec(c.Hist)
		if d := (c07{}).Oracle(c, got); d != "" {
			t.Fatalf("oracle rejects the unchanged implementation: %s\n%s", d, c.Hist.Sexp())
		}
	}
}
