package props

import (
	"fmt"
	"go/ast"
	"go/parser"
	"go/token"
	"math/rand"
	"reflect"
	"sort"
	"strconv"
	"strings"

	"github.com/dave/jennifer/jen"

	"verifharness/hist"
	"verifharness/term"
)

// CALLER-OWNED MAPS THAT CHANGE AFTER THEY WERE PASSED IN (shared by C17 and C13; the streams
// of C13 are in c13_live.go).
//
// jennifer keeps the caller's map: Tag(m) stores m itself, a Dict IS the caller's map.  What
// is rendered therefore reflects the map AS IT IS AT RENDER TIME - the unchanged library
// reads it in isNull and in render, every time.  The "attach now, fill in later" idiom
// (fields := map[string]string{}; st.Tag(fields); ...; fields["json"] = "a") relies on it.
//
// A spec (lvSpec) holds
//
//	Maps    the harness's own map[string]string objects (initial content = what they hold when
//	        Tag(m) is called; several Tag sites may hold the same object),
//	Dicts   the harness's own jen.Dict objects (pairs of retained key / value statements),
//	Hosts   the statements that receive the Tag(m) / Add(d) / Values(d) call, with the
//	        position of the call in their chain,
//	Roots   the statements that are rendered (and added to the one File 0),
//	Steps   mutations of the objects (add / replace / delete a key, empty it, refill it) and
//	        renders, in any order: mutations BEFORE the first render and BETWEEN renders.
//
// The implementation side builds everything ONCE through the public API (term.Builder for
// everything but the live calls, which are made here with the harness's objects), then runs
// the steps on the same values.  The model has no aliasing (a code value is a tree): the line
// it reads holds, for every render, the tree with the CONTENT THE OBJECTS HAVE AT THAT MOMENT
// (the generator replays the mutations on its own copy while it writes the line):
//
//	Statement.Render / GoString        (rplain <root now> 0)
//	Statement.RenderWithFile(w, f)     (newfile k ..) <settings> (rcode k <root now> 0)
//	File.Render                        (newfile k ..) <settings> (fadd k <root now>)... (render k 0)
//
// with a new model File k per render.  The trees of these streams contain no qualified
// identifier, so rendering leaves no trace in a File and a new File per render predicts the
// retained File exactly.  Every render is one "ext" op (hist/ext.go) whose Run closure asks
// the executor below for the next observation.
//
// Snapshots: lvBuild records, per render, the content of every object at that moment
// (lvSnap); the oracles decide the property against these.

type lvSlot struct {
	At   int         // index in the host's Items
	Kind string      // tag | dict
	Idx  int         // which map / which dict
	Wrap *term.Group // dict only: nil = the Dict is an item of the statement (Add(d)); otherwise the group whose ONLY item it is (Values(d))
}

type lvHost struct {
	St    *term.Stmt
	Slots []lvSlot
}

// lvPair is one pair of a live Dict.  The key is identified by its node (the same node is the
// same jen.Code, hence the same map key).
type lvPair struct{ K, V *term.Stmt }

type lvStep struct {
	Kind string // mut | dmut | render
	Idx  int    // mut: map; dmut: dict
	// mut
	Clear bool
	Del   []string
	Put   [][2]string
	// dmut (Clear too)
	DDel []*term.Stmt
	DPut []lvPair
	// render
	Way  string // plain | gostring | rcode | file
	Root int    // plain gostring rcode: which root
}

type lvSnap struct {
	Step  int
	Way   string
	Root  int
	Maps  [][][2]string // content of every map, keys sorted
	Dicts [][]lvPair    // pairs of every dict, in insertion order
}

type lvSpec struct {
	FileOps hist.History // constructor and settings of File 0 (F: 0)
	Maps    [][][2]string
	Dicts   [][]lvPair
	Hosts   []*lvHost
	Roots   []*term.Stmt
	Steps   []lvStep
	Snaps   []lvSnap // computed by lvBuild
}

func lvSorted(m map[string]string) [][2]string {
	out := make([][2]string, 0, len(m))
	for k, v := range m {
		out = append(out, [2]string{k, v})
	}
	sort.Slice(out, func(i, j int) bool { return out[i][0] < out[j][0] })
	return out
}

// lvApplyMap replays a mut step on a map.
func lvApplyMap(m map[string]string, st lvStep) {
	if st.Clear {
		for k := range m {
			delete(m, k)
		}
	}
	for _, k := range st.Del {
		delete(m, k)
	}
	for _, p := range st.Put {
		m[p[0]] = p[1]
	}
}

// lvApplyDict replays a dmut step on the generator's ordered copy of a dict.
func lvApplyDict(d []lvPair, st lvStep) []lvPair {
	if st.Clear {
		d = nil
	}
	for _, k := range st.DDel {
		var out []lvPair
		for _, p := range d {
			if p.K != k {
				out = append(out, p)
			}
		}
		d = out
	}
	for _, np := range st.DPut {
		found := false
		for i := range d {
			if d[i].K == np.K {
				d[i].V, found = np.V, true
			}
		}
		if !found {
			d = append(d, np)
		}
	}
	return append([]lvPair{}, d...)
}

func lvDictNode(pairs []lvPair) *term.Dict {
	d := &term.Dict{Pairs: make([][2]term.Node, len(pairs))}
	for i, p := range pairs {
		d.Pairs[i] = [2]term.Node{p.K, p.V}
	}
	return d
}

// place writes the content of a snapshot into the placeholders of the hosts.
func (sp *lvSpec) place(maps [][][2]string, dicts [][]lvPair) {
	for _, h := range sp.Hosts {
		for _, sl := range h.Slots {
			switch sl.Kind {
			case "tag":
				h.St.Items[sl.At] = term.Tag{KV: append([][2]string{}, maps[sl.Idx]...)}
			case "dict":
				d := lvDictNode(dicts[sl.Idx])
				if sl.Wrap != nil {
					sl.Wrap.Items = []term.Node{d}
					h.St.Items[sl.At] = sl.Wrap
				} else {
					h.St.Items[sl.At] = d
				}
			}
		}
	}
}

func lvOpText(op hist.Op, fid int) string {
	op.F = fid
	return hist.History{op}.Sexp()
}

// lvBuild writes the line for the model, records the snapshots and wires the executor.
func lvBuild(sp *lvSpec) hist.History {
	ex := &lvExec{sp: sp}
	z := term.NewSer()
	cm := make([]map[string]string, len(sp.Maps))
	for i, kv := range sp.Maps {
		cm[i] = map[string]string{}
		for _, p := range kv {
			cm[i][p[0]] = p[1]
		}
	}
	cd := make([][]lvPair, len(sp.Dicts))
	for i, d := range sp.Dicts {
		cd[i] = append([]lvPair{}, d...)
	}
	sp.Snaps = nil
	var h hist.History
	scratch := 0
	for i, st := range sp.Steps {
		switch st.Kind {
		case "mut":
			lvApplyMap(cm[st.Idx], st)
		case "dmut":
			cd[st.Idx] = lvApplyDict(cd[st.Idx], st)
		case "render":
			snap := lvSnap{Step: i, Way: st.Way, Root: st.Root}
			for _, m := range cm {
				snap.Maps = append(snap.Maps, lvSorted(m))
			}
			for _, d := range cd {
				snap.Dicts = append(snap.Dicts, append([]lvPair{}, d...))
			}
			sp.place(snap.Maps, snap.Dicts)
			var parts []string
			switch st.Way {
			case "plain", "gostring":
				parts = append(parts, "(rplain "+z.Sexp(sp.Roots[st.Root])+" 0)")
			case "rcode", "file":
				scratch++
				for _, op := range sp.FileOps {
					parts = append(parts, lvOpText(op, scratch))
				}
				if st.Way == "rcode" {
					parts = append(parts, fmt.Sprintf("(rcode %d %s 0)", scratch, z.Sexp(sp.Roots[st.Root])))
				} else {
					for _, rt := range sp.Roots {
						parts = append(parts, fmt.Sprintf("(fadd %d %s)", scratch, z.Sexp(rt)))
					}
					parts = append(parts, fmt.Sprintf("(render %d 0)", scratch))
				}
			default:
				panic("lv: bad way " + st.Way)
			}
			idx := len(sp.Snaps)
			sp.Snaps = append(sp.Snaps, snap)
			h = append(h, hist.Op{Kind: "ext", A: strings.Join(parts, " "), Run: func() hist.Obs { return ex.obs(idx) }})
		default:
			panic("lv: bad step " + st.Kind)
		}
	}
	ex.total = len(sp.Snaps)
	return h
}

// ---- the implementation side ----

type lvExec struct {
	sp    *lvSpec
	total int
	next  int // index of the next observation
	pos   int // next step
	w     *hist.World
	maps  []map[string]string
	dicts []jen.Dict
}

var lvCodeT = reflect.TypeOf((*jen.Code)(nil)).Elem()

// restart builds everything anew: the harness's objects with their initial content, the
// values (every live call is made here, with the harness's object), File 0 holding the roots.
func (ex *lvExec) restart() {
	sp := ex.sp
	ex.w, ex.next, ex.pos = hist.NewWorld(), 0, 0
	bd := ex.w.B
	ex.maps = make([]map[string]string, len(sp.Maps))
	for i, kv := range sp.Maps {
		ex.maps[i] = map[string]string{}
		for _, p := range kv {
			ex.maps[i][p[0]] = p[1]
		}
	}
	ex.dicts = make([]jen.Dict, len(sp.Dicts))
	for i, d := range sp.Dicts {
		ex.dicts[i] = jen.Dict{}
		for _, p := range d {
			ex.dicts[i][bd.Code(p.K)] = bd.Code(p.V)
		}
	}
	// pass 1: every host exists as an (empty) statement, so that a host met inside another
	// tree is that pointer; pass 2: the chains, the live calls made with the harness's objects
	saved := make([][]term.Node, len(sp.Hosts))
	for i, h := range sp.Hosts {
		saved[i] = h.St.Items
		h.St.Items = nil
		bd.Stmt(h.St)
		h.St.Items = saved[i]
	}
	for _, h := range sp.Hosts {
		js := bd.Stmt(h.St)
		slot := map[int]lvSlot{}
		for _, sl := range h.Slots {
			slot[sl.At] = sl
		}
		for i, it := range h.St.Items {
			sl, live := slot[i]
			switch {
			case !live:
				bd.Append(js, it)
			case sl.Kind == "tag":
				js.Tag(ex.maps[sl.Idx])
			case sl.Wrap == nil:
				js.Add(ex.dicts[sl.Idx])
			default:
				m := reflect.ValueOf(js).MethodByName(sl.Wrap.Method)
				if !m.IsValid() {
					panic("lv: no method " + sl.Wrap.Method)
				}
				v := reflect.New(lvCodeT).Elem()
				v.Set(reflect.ValueOf(ex.dicts[sl.Idx]))
				m.Call([]reflect.Value{v})
			}
		}
	}
	ex.w.Exec(sp.FileOps)
	for _, rt := range sp.Roots {
		ex.w.Exec(hist.History{{Kind: "fadd", F: 0, Code: rt}})
	}
}

func (ex *lvExec) one(op hist.Op) hist.Obs {
	obs := ex.w.Exec(hist.History{op})
	if len(obs) != 1 {
		return hist.Obs{Kind: "bad", Msg: fmt.Sprintf("lv: %s gave %d observations", op.Kind, len(obs))}
	}
	return obs[0]
}

func (ex *lvExec) step(st lvStep) (hist.Obs, bool) {
	switch st.Kind {
	case "mut":
		lvApplyMap(ex.maps[st.Idx], st)
	case "dmut":
		d := ex.dicts[st.Idx]
		bd := ex.w.B
		if st.Clear {
			for k := range d {
				delete(d, k)
			}
		}
		for _, k := range st.DDel {
			delete(d, bd.Code(k))
		}
		for _, p := range st.DPut {
			d[bd.Code(p.K)] = bd.Code(p.V)
		}
	case "render":
		rt := ex.sp.Roots[st.Root]
		switch st.Way {
		case "plain":
			return ex.one(hist.Op{Kind: "rplain", Code: rt}), true
		case "gostring":
			s := ex.w.B.Stmt(rt)
			return c08fGoString(func() string { return s.GoString() }), true
		case "rcode":
			return ex.one(hist.Op{Kind: "rcode", F: 0, Code: rt}), true
		case "file":
			return ex.one(hist.Op{Kind: "render", F: 0}), true
		}
		panic("lv: bad way " + st.Way)
	}
	return hist.Obs{}, false
}

// obs produces observation k (the executor runs forward; asked for anything but the next
// observation it starts again from the beginning).
func (ex *lvExec) obs(k int) (o hist.Obs) {
	defer func() {
		if r := recover(); r != nil {
			o = hist.Obs{Kind: "bad", Msg: "lv: harness panic while executing: " + fmt.Sprint(r)}
			ex.w = nil
		}
		if k == ex.total-1 {
			ex.w, ex.maps, ex.dicts = nil, nil, nil // release the values
		}
	}()
	if k == 0 || ex.w == nil || k != ex.next {
		ex.restart()
	}
	for ex.pos < len(ex.sp.Steps) {
		st := ex.sp.Steps[ex.pos]
		ex.pos++
		if got, is := ex.step(st); is {
			ex.next++
			if ex.next-1 == k {
				return got
			}
		}
	}
	return hist.Obs{Kind: "bad", Msg: fmt.Sprintf("lv: no observation %d", k)}
}

// ---- the from-scratch twin ----

// lvSurvives: the pair is written by Dict.render (key and value both non-null).
func lvSurvives(p lvPair) bool { return !lvNullStmt(p.K) && !lvNullStmt(p.V) }

// lvNullStmt: a statement made of Null() tokens only (the null values these streams use).
func lvNullStmt(s *term.Stmt) bool {
	for _, it := range s.Items {
		if t, ok := it.(term.Tok); !ok || t.Kind != "null" {
			return false
		}
	}
	return true
}

// fresh copies a tree (new nodes throughout) with the content of a snapshot written as
// ordinary literals: Tag(map literal), Dict{...}.  drop: a tag whose map is empty and a Dict
// without a surviving pair are LEFT OUT altogether (no Tag call, no Dict item).
func (sp *lvSpec) fresh(n term.Node, snap *lvSnap, drop bool) term.Node {
	switch x := n.(type) {
	case *term.Stmt:
		var host *lvHost
		for _, h := range sp.Hosts {
			if h.St == x {
				host = h
			}
		}
		out := &term.Stmt{}
		for i, it := range x.Items {
			var sl *lvSlot
			if host != nil {
				for j := range host.Slots {
					if host.Slots[j].At == i {
						sl = &host.Slots[j]
					}
				}
			}
			switch {
			case sl == nil:
				out.Items = append(out.Items, sp.fresh(it, snap, drop))
			case sl.Kind == "tag":
				kv := snap.Maps[sl.Idx]
				if len(kv) == 0 && drop {
					continue
				}
				out.Items = append(out.Items, term.Tag{KV: append([][2]string{}, kv...)})
			default:
				var pairs []lvPair
				alive := false
				for _, p := range snap.Dicts[sl.Idx] {
					pairs = append(pairs, lvPair{sp.fresh(p.K, snap, drop).(*term.Stmt), sp.fresh(p.V, snap, drop).(*term.Stmt)})
					alive = alive || lvSurvives(p)
				}
				var d term.Node = lvDictNode(pairs)
				if sl.Wrap != nil {
					g := *sl.Wrap
					g.Items = []term.Node{d}
					if !alive && drop {
						g.Items = nil
					}
					out.Items = append(out.Items, &g)
				} else if alive || !drop {
					out.Items = append(out.Items, d)
				}
			}
		}
		return out
	case *term.Group:
		g := *x
		g.Items = make([]term.Node, len(x.Items))
		for i, it := range x.Items {
			g.Items[i] = sp.fresh(it, snap, drop)
		}
		return &g
	case *term.Dict:
		d := &term.Dict{Pairs: make([][2]term.Node, len(x.Pairs))}
		for i, p := range x.Pairs {
			d.Pairs[i] = [2]term.Node{sp.fresh(p[0], snap, drop), sp.fresh(p[1], snap, drop)}
		}
		return d
	}
	return n
}

// twin renders, for snapshot k, a tree built from scratch with the content of that moment
// (new values, a new File with the same settings, nothing retained, nothing rendered before).
func (sp *lvSpec) twin(k int, drop bool) (o hist.Obs) {
	defer func() {
		if r := recover(); r != nil {
			o = hist.Obs{Kind: "bad", Msg: "lv: harness panic in the twin: " + fmt.Sprint(r)}
		}
	}()
	snap := &sp.Snaps[k]
	w := hist.NewWorld()
	w.Exec(sp.FileOps)
	roots := make([]*term.Stmt, len(sp.Roots))
	for i, rt := range sp.Roots {
		roots[i] = sp.fresh(rt, snap, drop).(*term.Stmt)
		w.Exec(hist.History{{Kind: "fadd", F: 0, Code: roots[i]}})
	}
	var obs []hist.Obs
	switch snap.Way {
	case "plain":
		obs = w.Exec(hist.History{{Kind: "rplain", Code: roots[snap.Root]}})
	case "gostring":
		s := w.B.Stmt(roots[snap.Root])
		return c08fGoString(func() string { return s.GoString() })
	case "rcode":
		obs = w.Exec(hist.History{{Kind: "rcode", F: 0, Code: roots[snap.Root]}})
	case "file":
		obs = w.Exec(hist.History{{Kind: "render", F: 0}})
	}
	if len(obs) != 1 {
		return hist.Obs{Kind: "bad", Msg: fmt.Sprintf("lv: the twin gave %d observations", len(obs))}
	}
	return obs[0]
}

// lvSameAsTwin: every render shows what the from-scratch twin of that moment shows.
func lvSameAsTwin(sp *lvSpec, got []hist.Obs, drop bool) string {
	if len(got) != len(sp.Snaps) {
		return fmt.Sprintf("expected %d observations, got %d", len(sp.Snaps), len(got))
	}
	for k := range sp.Snaps {
		tw := sp.twin(k, drop)
		if tw.Kind == "bad" {
			return tw.Msg
		}
		if got[k].Kind != tw.Kind || got[k].Out != tw.Out {
			what := "built from scratch with the content the caller's maps have at that moment"
			if drop {
				what += " (empty tags and empty Dicts left out altogether)"
			}
			return fmt.Sprintf("render %d (%s, step %d) of the retained values differs from the same tree %s:\n retained: %s\n scratch:  %s\n content:  %s",
				k, sp.Snaps[k].Way, sp.Snaps[k].Step, what, got[k], tw, sp.Snaps[k].describe())
		}
	}
	return ""
}

func (s *lvSnap) describe() string {
	var parts []string
	for i, m := range s.Maps {
		parts = append(parts, fmt.Sprintf("map%d=%q", i, m))
	}
	for i, d := range s.Dicts {
		parts = append(parts, fmt.Sprintf("dict%d=%d pairs", i, len(d)))
	}
	return strings.Join(parts, " ")
}

// lvMeasure: what the steps of a spec exercise (tags), and whether some render shows a map or
// Dict whose content differs from what it held when it was passed in (non-trivial).
func lvMeasure(sp *lvSpec) (tags []string, changed int) {
	set := map[string]bool{}
	renders := 0
	for _, st := range sp.Steps {
		switch st.Kind {
		case "mut", "dmut":
			when := "live:mutation-between-renders"
			if renders == 0 {
				when = "live:mutation-before-first-render"
			}
			set[when] = true
			if st.Clear && len(st.Put)+len(st.DPut) > 0 {
				set["live:op=refill"] = true
			} else if st.Clear {
				set["live:op=empty"] = true
			}
			if len(st.Del)+len(st.DDel) > 0 {
				set["live:op=delete"] = true
			}
			if !st.Clear && len(st.Put)+len(st.DPut) > 0 {
				set["live:op=put"] = true
			}
		case "render":
			renders++
		}
	}
	same := func(a, b [][2]string) bool {
		if len(a) != len(b) {
			return false
		}
		for i := range a {
			if a[i] != b[i] {
				return false
			}
		}
		return true
	}
	sameD := func(a, b []lvPair) bool {
		if len(a) != len(b) {
			return false
		}
		for i := range a {
			if a[i] != b[i] {
				return false
			}
		}
		return true
	}
	used := map[int]int{}
	for _, h := range sp.Hosts {
		for _, sl := range h.Slots {
			if sl.Kind == "tag" {
				used[sl.Idx]++
			}
		}
	}
	for _, n := range used {
		if n > 1 {
			set["live:one-map-in-several-tags"] = true
		}
	}
	for k, sn := range sp.Snaps {
		diff := false
		for i, m := range sn.Maps {
			init := lvSorted(lvToMap(sp.Maps[i]))
			if !same(m, init) {
				diff = true
				switch {
				case len(m) == 0:
					set["live:tag-became-empty"] = true
				case len(init) == 0:
					set["live:tag-became-nonempty"] = true
				case len(m) < len(init):
					set["live:tag-lost-keys"] = true
				case len(m) > len(init):
					set["live:tag-gained-keys"] = true
				default:
					set["live:tag-values-replaced"] = true
				}
			}
			if k > 0 && !same(m, sp.Snaps[k-1].Maps[i]) {
				set["live:content-differs-between-two-renders"] = true
			}
		}
		for i, d := range sn.Dicts {
			if !sameD(d, sp.Dicts[i]) {
				diff = true
				switch {
				case len(d) == 0:
					set["live:dict-became-empty"] = true
				case len(sp.Dicts[i]) == 0:
					set["live:dict-became-nonempty"] = true
				default:
					set["live:dict-pairs-changed"] = true
				}
			}
			if k > 0 && !sameD(d, sp.Snaps[k-1].Dicts[i]) {
				set["live:content-differs-between-two-renders"] = true
			}
		}
		if diff {
			changed++
		}
	}
	set[fmt.Sprintf("live:renders=%d", len(sp.Snaps))] = true
	for t := range set {
		tags = append(tags, t)
	}
	sort.Strings(tags)
	return tags, changed
}

func lvToMap(kv [][2]string) map[string]string {
	m := map[string]string{}
	for _, p := range kv {
		m[p[0]] = p[1]
	}
	return m
}

// lvMapSteps draws mutations of map idx over the key universe keys (value drawn by val),
// replaying them on cur.  Every kind of change is drawn: a new key, another value for a key,
// a key removed, the map emptied, the map emptied and refilled; an emptied map is refilled
// later with probability 1/2 by the next call.
func lvMapSteps(r *rand.Rand, idx int, cur map[string]string, keys []string, val func(k string) string, n int) []lvStep {
	var out []lvStep
	for ; n > 0; n-- {
		st := lvStep{Kind: "mut", Idx: idx}
		var present, absent []string
		for _, k := range keys {
			if _, ok := cur[k]; ok {
				present = append(present, k)
			} else {
				absent = append(absent, k)
			}
		}
		switch c := r.Intn(10); {
		case len(present) == 0:
			// empty now: fill it (1..3 keys)
			for _, j := range r.Perm(len(absent))[:1+r.Intn(min3(3, len(absent)))] {
				st.Put = append(st.Put, [2]string{absent[j], val(absent[j])})
			}
		case c < 3:
			st.Clear = true
		case c < 4:
			st.Clear = true
			for _, j := range r.Perm(len(keys))[:1+r.Intn(min3(3, len(keys)))] {
				st.Put = append(st.Put, [2]string{keys[j], val(keys[j])})
			}
		case c < 6 && len(absent) > 0:
			k := absent[r.Intn(len(absent))]
			st.Put = [][2]string{{k, val(k)}}
		case c < 8:
			st.Del = []string{present[r.Intn(len(present))]}
			if len(present) > 1 && r.Intn(3) == 0 {
				st.Del = append([]string{}, present...) // every key deleted one by one: empty, not "cleared"
			}
		default:
			k := present[r.Intn(len(present))]
			st.Put = [][2]string{{k, val(k)}}
		}
		lvApplyMap(cur, st)
		out = append(out, st)
	}
	return out
}

// ---------------------------------------------------------------------------------------
// C17: streams live-map, boundary

// c17Boundary draws two different pairs (k1, v1), (k2, v2) with k1+v1 == k2+v2 (the boundary
// between key and value in another place): ("db","name") / ("d","bname"), ("jsonx","") /
// ("json","x").  Both keys are conventional tag keys.
func c17Boundary(r *rand.Rand) [2][2]string {
	fixed := [][2][2]string{
		{{"db", "name"}, {"d", "bname"}},
		{{"jsonx", ""}, {"json", "x"}},
		{{"k", "ey"}, {"ke", "y"}},
		{{"json", "-"}, {"json-", ""}},
		{{"a", "a"}, {"aa", ""}},
		{{"xml", "attr,omitempty"}, {"xmlattr", ",omitempty"}},
	}
	if r.Intn(3) == 0 {
		return fixed[r.Intn(len(fixed))]
	}
	k := TagKey(r)
	e := TagKey(r)
	v := AdvString(r)
	if r.Intn(3) == 0 {
		v = ""
	}
	p := [2][2]string{{k, e + v}, {k + e, v}}
	if r.Intn(2) == 0 {
		p[0], p[1] = p[1], p[0]
	}
	return p
}

// c17BoundaryCases: pairs with the same concatenation key+value, (a) inside ONE map (with 0..2
// other keys), (b) in two maps of two fields of one struct, (c) in two consecutive cases of
// the run (one process: anything the renderer remembers from one Tag render to the next is
// met by the second), each pair also alone.
func c17BoundaryCases(r *rand.Rand, n int) []*Case {
	var out []*Case
	tagged := func(c *Case, t string) *Case {
		c.Tags = append(c.Tags, "boundary:same-concatenation", t)
		return c
	}
	for i := 0; i < n; i++ {
		p := c17Boundary(r)
		nf := r.Intn(2) == 0
		switch i % 3 {
		case 0:
			kv := [][2]string{p[0], p[1]}
			seen := map[string]bool{p[0][0]: true, p[1][0]: true}
			for j := r.Intn(3); j > 0; j-- {
				if k := TagKey(r); !seen[k] {
					seen[k] = true
					kv = append(kv, [2]string{k, AdvString(r)})
				}
			}
			r.Shuffle(len(kv), func(a, b int) { kv[a], kv[b] = kv[b], kv[a] })
			out = append(out, tagged(tagCase(kv, nf, "boundary"), "boundary:in-one-map"))
		case 1:
			out = append(out, tagged(c17StaticFields([][][2]string{{p[0]}, {p[1]}}, nf), "boundary:two-tags-of-one-struct"))
		default:
			out = append(out, tagged(tagCase([][2]string{p[0]}, nf, "boundary"), "boundary:consecutive-renders"))
			out = append(out, tagged(tagCase([][2]string{p[1]}, nf, "boundary"), "boundary:consecutive-renders"))
		}
	}
	return out
}

// c17Field is one struct field F<i> whose tag holds map Idx.
type c17Field struct {
	Name string
	Idx  int
}

func c17Struct(sp *lvSpec, name string, fields []c17Field, r *rand.Rand) *term.Stmt {
	types := []string{"String", "Int", "Bool", "Byte", "Error"}
	var items []term.Node
	for i, f := range fields {
		st := term.S(term.Id(f.Name), term.Named(types[(i+len(name))%len(types)]), term.Tag{})
		if r != nil && r.Intn(5) == 0 {
			st.Items = append(st.Items, term.Comment{Text: "c"}) // something chained after the tag
		}
		sp.Hosts = append(sp.Hosts, &lvHost{St: st, Slots: []lvSlot{{At: 2, Kind: "tag", Idx: f.Idx}}})
		items = append(items, st)
	}
	return term.S(term.Named("Type"), term.Id(name), term.G("Struct", items...))
}

func c17LiveFinish(sp *lvSpec, fields [][]c17Field, stream string, extra []string) *Case {
	h := lvBuild(sp)
	tags, changed := lvMeasure(sp)
	tags = append(tags, extra...)
	ways := map[string]bool{}
	for _, sn := range sp.Snaps {
		ways["live:way="+sn.Way] = true
	}
	for w := range ways {
		tags = append(tags, w)
	}
	sort.Strings(tags)
	// non-trivial: at least one render shows a tag whose map holds something else than it held
	// when Tag(m) was called (live-map), resp. the case has a tag at all (static fields)
	return &Case{Hist: h, Stream: stream, Tags: uniqStrings(tags), NonTrivial: changed > 0 || stream != "live-map",
		Meta: map[string]interface{}{"kind": "live", "lv": sp, "fields": fields}}
}

// c17StaticFields: one struct, field i tagged with maps[i]; rendered once, nothing changes.
func c17StaticFields(maps [][][2]string, noformat bool) *Case {
	sp := &lvSpec{FileOps: hist.History{{Kind: "newfile", F: 0, A: "p"}, {Kind: "noformat", F: 0, Flag: noformat}}, Maps: maps}
	var fs []c17Field
	for i := range maps {
		fs = append(fs, c17Field{fmt.Sprintf("F%d", i), i})
	}
	sp.Roots = []*term.Stmt{c17Struct(sp, "T", fs, nil)}
	sp.Steps = []lvStep{{Kind: "render", Way: "file"}}
	return c17LiveFinish(sp, [][]c17Field{fs}, "boundary", nil)
}

// c17LiveCase: 1..2 structs of 1..4 fields whose tags hold 1..3 maps of the harness (a map
// may sit in several fields); the maps start empty (1/3) or with 1..4 keys over a universe of
// 3..7 keys (conventional keys, adversarial values, 1/3 with a same-concatenation pair);
// 0..2 mutations before the first render (2/3 at least one), then 1..3 further rounds of 0..2
// mutations and a render.  Ways: File.Render (NoFormat 1/2), Statement.Render, GoString,
// RenderWithFile.
func c17LiveCase(r *rand.Rand) *Case {
	sp := &lvSpec{FileOps: hist.History{{Kind: "newfile", F: 0, A: "p"}, {Kind: "noformat", F: 0, Flag: r.Intn(2) == 0}}}
	nm := 1 + r.Intn(3)
	keys := make([][]string, nm)
	cur := make([]map[string]string, nm)
	var extra []string
	for i := 0; i < nm; i++ {
		seen := map[string]bool{}
		if r.Intn(3) == 0 {
			p := c17Boundary(r)
			keys[i] = append(keys[i], p[0][0], p[1][0])
			seen[p[0][0]], seen[p[1][0]] = true, true
		}
		for n := 3 + r.Intn(5); len(keys[i]) < n; {
			if k := TagKey(r); !seen[k] {
				seen[k] = true
				keys[i] = append(keys[i], k)
			}
		}
		cur[i] = map[string]string{}
		if r.Intn(3) > 0 {
			for _, j := range r.Perm(len(keys[i]))[:1+r.Intn(min3(4, len(keys[i])))] {
				cur[i][keys[i][j]] = AdvString(r)
			}
		}
		sp.Maps = append(sp.Maps, lvSorted(cur[i]))
	}
	var fields [][]c17Field
	fid := 0
	for s := 1 + r.Intn(2); s > 0; s-- {
		var fs []c17Field
		for n := 1 + r.Intn(4); n > 0; n-- {
			idx := fid
			if idx >= nm {
				idx = r.Intn(nm)
			}
			fs = append(fs, c17Field{fmt.Sprintf("F%d", fid), idx})
			fid++
		}
		sp.Roots = append(sp.Roots, c17Struct(sp, fmt.Sprintf("T%d", len(fields)), fs, r))
		fields = append(fields, fs)
	}
	val := func(string) string { return AdvString(r) }
	mutate := func(n int) {
		for ; n > 0; n-- {
			i := r.Intn(nm)
			sp.Steps = append(sp.Steps, lvMapSteps(r, i, cur[i], keys[i], val, 1)...)
		}
	}
	ways := []string{"file", "file", "plain", "gostring", "rcode"}
	render := func() {
		sp.Steps = append(sp.Steps, lvStep{Kind: "render", Way: ways[r.Intn(len(ways))], Root: r.Intn(len(sp.Roots))})
	}
	if r.Intn(3) > 0 {
		mutate(1 + r.Intn(2))
	}
	render()
	for k := 1 + r.Intn(3); k > 0; k-- {
		mutate(r.Intn(3))
		render()
	}
	extra = append(extra, fmt.Sprintf("live:maps=%d", nm), fmt.Sprintf("live:fields=%d", fid))
	return c17LiveFinish(sp, fields, "live-map", extra)
}

// c17CheckField decides the property for one struct field of the parsed output: kv is what
// the field's map holds (at the time of the render).
func c17CheckField(field *ast.Field, kv [][2]string) string {
	if len(kv) == 0 {
		if field.Tag != nil {
			return "empty map rendered a tag: " + field.Tag.Value
		}
		return ""
	}
	if field.Tag == nil {
		return "tag missing from output"
	}
	body, err := strconv.Unquote(field.Tag.Value)
	if err != nil {
		return "tag literal does not unquote: " + err.Error()
	}
	st := reflect.StructTag(body)
	keys := make([]string, 0, len(kv))
	for _, p := range kv {
		v, ok := st.Lookup(p[0])
		if !ok {
			return fmt.Sprintf("key %q not found in tag %q", p[0], body)
		}
		if v != p[1] {
			return fmt.Sprintf("key %q: got %q want %q (tag %q)", p[0], v, p[1], body)
		}
		keys = append(keys, p[0])
	}
	// keys in sorted order: scan the conventional format
	sort.Strings(keys)
	pos := 0
	rest := body
	for _, k := range keys {
		want := k + ":\""
		if pos > 0 {
			want = " " + want
		}
		if len(rest) < len(want) || rest[:len(want)] != want {
			return fmt.Sprintf("keys not in sorted order at %q (tag %q)", k, body)
		}
		// skip the quoted value
		i := len(want)
		for i < len(rest) && rest[i] != '"' {
			if rest[i] == '\\' {
				i++
			}
			i++
		}
		if i >= len(rest) {
			return fmt.Sprintf("unterminated value of key %q in tag %q", k, body)
		}
		rest = rest[i+1:]
		pos++
	}
	if rest != "" {
		return fmt.Sprintf("trailing text %q in tag %q", rest, body)
	}
	return ""
}

// c17LiveOracle: every render is parsed; every field of the rendered struct(s) is looked up
// by name and its tag is read with reflect.StructTag against what the field's map holds AT
// THAT RENDER (the snapshot recorded by the generator): exactly those keys with those values,
// in sorted order, nothing else; no tag at all when the map is empty then.
func c17LiveOracle(c *Case, got []hist.Obs) string {
	sp := c.Meta["lv"].(*lvSpec)
	fields := c.Meta["fields"].([][]c17Field)
	if len(got) != len(sp.Snaps) {
		return fmt.Sprintf("expected %d observations, got %d", len(sp.Snaps), len(got))
	}
	for k, sn := range sp.Snaps {
		if got[k].Kind != "write" {
			return fmt.Sprintf("render %d (%s) did not succeed: %s", k, sn.Way, got[k])
		}
		src := got[k].Out
		var want []c17Field
		if sn.Way == "file" {
			for _, fs := range fields {
				want = append(want, fs...)
			}
		} else {
			src = "package p\n\n" + src
			want = fields[sn.Root]
		}
		if m := c17CheckSource(src, want, sn.Maps); m != "" {
			return fmt.Sprintf("render %d (%s, step %d): %s\n maps at that moment: %s", k, sn.Way, sn.Step, m, sn.describe())
		}
	}
	return ""
}

func c17CheckSource(src string, want []c17Field, maps [][][2]string) string {
	f, err := parser.ParseFile(token.NewFileSet(), "x.go", src, 0)
	if err != nil {
		return "output does not parse: " + err.Error()
	}
	byName := map[string]*ast.Field{}
	ast.Inspect(f, func(n ast.Node) bool {
		if st, ok := n.(*ast.StructType); ok {
			for _, fd := range st.Fields.List {
				for _, id := range fd.Names {
					byName[id.Name] = fd
				}
			}
		}
		return true
	})
	for _, w := range want {
		fd := byName[w.Name]
		if fd == nil {
			return fmt.Sprintf("struct field %s not found in output", w.Name)
		}
		if m := c17CheckField(fd, maps[w.Idx]); m != "" {
			return fmt.Sprintf("field %s: %s", w.Name, m)
		}
	}
	return ""
}
