package props

import (
	"fmt"
	"go/ast"
	"go/parser"
	"go/scanner"
	"go/token"
	"math/rand"
	"strconv"
	"strings"
	"unicode/utf8"

	"verifharness/hist"
)

// C12: string, rune and byte literals preserve their exact content and stay one token.
//
// A case embeds one or more literals in a fixed token skeleton (the shapes of c11.go:
// `var x = @`, `x := @ ; y`, a file with `func f() { x := @ ; y(a, @, b) }`, a file with many
// `var _ = @`).  The model predicts the bytes (Compare = CompareAll).  The oracle scans what the
// implementation wrote with go/scanner and requires exactly the skeleton's token sequence with
// ONE token of kind STRING (CHAR) in place of every @, whose value (strconv.Unquote /
// strconv.UnquoteChar) is the string (rune) handed to Lit (LitRune).  For LitByte the
// expression in the slot is located with go/parser and evaluated with go/types: type byte, value b.
//
// c12_conc.go: literals rendered by several goroutines at once.  c12_ctx.go (round 6): the
// streams context (a literal in ~35 other code contexts: Dict key / value, Index, Case,
// Custom, Tag, in front of a chained Block ...), magic-content (content equal to the strings
// the renderer compares with, next to and inside every group kind; oracle: the same code with
// a neutral literal) and size (literals and rendered lines around 2^16, 2^17, 2^20 bytes).
type c12 struct{}

func init() { Register(c12{}) }

func (c12) ID() string { return "C12" }

// ---------------------------------------------------------------------------------------
// Oracle.

type c12Token struct {
	tok token.Token
	lit string
}

// c12Scan: all tokens of src (comments included, so that text leaking into a comment is
// seen), and the scanner's error messages.
func c12Scan(src string) ([]c12Token, []string) {
	fset := token.NewFileSet()
	file := fset.AddFile("x.go", fset.Base(), len(src))
	var errs []string
	var s scanner.Scanner
	s.Init(file, []byte(src), func(pos token.Position, msg string) { errs = append(errs, fmt.Sprintf("%d: %s", pos.Offset, msg)) }, scanner.ScanComments)
	var out []c12Token
	for {
		_, tok, lit := s.Scan()
		if tok == token.EOF {
			return out, errs
		}
		out = append(out, c12Token{tok, lit})
	}
}

// c12LitValue decides that the token is one literal of the kind and value of l.
func c12LitValue(t c12Token, l c1xLit) string {
	switch l.Kind {
	case "lit":
		want := l.V.(string)
		if t.tok != token.STRING {
			return fmt.Sprintf("token %s %q where a string literal is expected", t.tok, t.lit)
		}
		got, err := strconv.Unquote(t.lit)
		if err != nil {
			return fmt.Sprintf("string literal %s does not unquote: %v", t.lit, err)
		}
		if got != want {
			return fmt.Sprintf("string literal %s has value %q, want %q", t.lit, got, want)
		}
	case "rune":
		want := l.V.(rune)
		if t.tok != token.CHAR {
			return fmt.Sprintf("token %s %q where a rune literal is expected", t.tok, t.lit)
		}
		if len(t.lit) < 3 || t.lit[0] != '\'' || t.lit[len(t.lit)-1] != '\'' {
			return "malformed rune literal " + t.lit
		}
		got, _, tail, err := strconv.UnquoteChar(t.lit[1:len(t.lit)-1], '\'')
		if err != nil || tail != "" {
			return fmt.Sprintf("rune literal %s does not unquote (%v, rest %q)", t.lit, err, tail)
		}
		if got != want {
			return fmt.Sprintf("rune literal %s has value %U, want %U", t.lit, got, want)
		}
	default:
		return "harness: token check of a " + l.Kind + " literal"
	}
	return ""
}

// c12CheckTokens: src scans without error into exactly the tokens of the shape's skeleton,
// each @ replaced by one literal token with the right value.
func c12CheckTokens(shape, src string, lits []c1xLit) string {
	return c12CheckTemplate(c1xTemplate(shape, len(lits)), src, lits)
}

// c12MatchSlot decides that the tokens of got from index j on start with the literal l and
// returns how many tokens it takes: one STRING (CHAR) token for a string (rune); for a byte
// the conversion byte(<integer literal of value b>) (four tokens; uint8 is the same type); for
// Kind "id" (an identifier put where a literal could stand, c12_ctx.go) one IDENT of that name.
func c12MatchSlot(got []c12Token, j int, l c1xLit) (int, string) {
	if j >= len(got) {
		return 0, "output ends where a literal is expected"
	}
	switch l.Kind {
	case "lit", "rune":
		return 1, c12LitValue(got[j], l)
	case "id":
		if got[j].tok != token.IDENT || got[j].lit != l.V.(string) {
			return 1, fmt.Sprintf("token %s %q where the identifier %q is expected", got[j].tok, got[j].lit, l.V.(string))
		}
		return 1, ""
	case "byte":
		want := l.V.(byte)
		if j+3 >= len(got) || got[j].tok != token.IDENT || (got[j].lit != "byte" && got[j].lit != "uint8") ||
			got[j+1].tok != token.LPAREN || got[j+2].tok != token.INT || got[j+3].tok != token.RPAREN {
			return 1, fmt.Sprintf("tokens from %s %q on where the conversion byte(%#x) is expected", got[j].tok, got[j].lit, want)
		}
		v, err := strconv.ParseUint(strings.ReplaceAll(got[j+2].lit, "_", ""), 0, 64)
		if err != nil || v != uint64(want) {
			return 4, fmt.Sprintf("byte(%s) where byte(%#x) is expected", got[j+2].lit, want)
		}
		return 4, ""
	}
	return 1, "harness: token check of a " + l.Kind + " literal"
}

// c12CheckTemplate: the same for a skeleton given as text (`@` = one literal).
func c12CheckTemplate(template, src string, lits []c1xLit) string {
	tmpl, _ := c12Scan(template) // '@' scans as ILLEGAL
	got, errs := c12Scan(src)
	if len(errs) > 0 {
		return "output does not scan: " + strings.Join(errs, "; ")
	}
	k, j := 0, 0
	for i, want := range tmpl {
		if j >= len(got) {
			return fmt.Sprintf("output ends after %d tokens, skeleton has %d", len(got), len(tmpl))
		}
		if want.tok == token.ILLEGAL {
			if k >= len(lits) {
				return "harness: skeleton has more slots than the case has literals"
			}
			n, m := c12MatchSlot(got, j, lits[k])
			if m != "" {
				return fmt.Sprintf("literal %d: %s", k, m)
			}
			j += n
			k++
			continue
		}
		g := got[j]
		if g.tok != want.tok || (want.tok != token.SEMICOLON && g.lit != want.lit) {
			return fmt.Sprintf("token %d is %s %q, skeleton has %s %q (neighbours of the literal not intact)", i, g.tok, g.lit, want.tok, want.lit)
		}
		j++
	}
	if j != len(got) {
		return fmt.Sprintf("%d extra tokens after the skeleton, first %s %q", len(got)-j, got[j].tok, got[j].lit)
	}
	if k != len(lits) {
		return "harness: skeleton has fewer slots than the case has literals"
	}
	return ""
}

// c12FuncFileExprs parses a func-file output and returns the source text of its two slots.
func c12FuncFileExprs(src string) ([]string, string) {
	fset := token.NewFileSet()
	f, err := parser.ParseFile(fset, "x.go", src, 0)
	if err != nil {
		return nil, "output does not parse: " + err.Error()
	}
	text := func(e ast.Expr) string { return src[fset.Position(e.Pos()).Offset:fset.Position(e.End()).Offset] }
	isId := func(e ast.Expr, name string) bool { id, ok := e.(*ast.Ident); return ok && id.Name == name }
	bad := "output is not `package p; func f() { x := E; y(a, E, b) }`"
	if f.Name.Name != "p" || len(f.Decls) != 1 {
		return nil, bad
	}
	fd, ok := f.Decls[0].(*ast.FuncDecl)
	if !ok || fd.Name.Name != "f" || fd.Recv != nil || fd.Body == nil || len(fd.Body.List) != 2 || fd.Type.Params.NumFields() != 0 || fd.Type.Results != nil {
		return nil, bad
	}
	as, ok1 := fd.Body.List[0].(*ast.AssignStmt)
	es, ok2 := fd.Body.List[1].(*ast.ExprStmt)
	if !ok1 || !ok2 || as.Tok != token.DEFINE || len(as.Lhs) != 1 || len(as.Rhs) != 1 || !isId(as.Lhs[0], "x") {
		return nil, bad
	}
	call, ok := es.X.(*ast.CallExpr)
	if !ok || !isId(call.Fun, "y") || len(call.Args) != 3 || !isId(call.Args[0], "a") || !isId(call.Args[2], "b") || call.Ellipsis.IsValid() {
		return nil, bad
	}
	return []string{text(as.Rhs[0]), text(call.Args[1])}, ""
}

// c12CheckBytes: every slot holds a constant expression of type byte with the value given to LitByte.
func c12CheckBytes(shape, src string, lits []c1xLit) string {
	vals := make([]interface{}, len(lits))
	for i, l := range lits {
		vals[i] = l.V.(byte)
	}
	switch shape {
	case c1xVarPlain, c1xVarFile, c1xBatchFile:
		return c1xCheckDecls(src, c1xIsFile(shape), vals)
	case c1xFuncFile:
		exprs, msg := c12FuncFileExprs(src)
		if msg != "" {
			return msg
		}
		for i, e := range exprs {
			if m := c1xCheckExpr(e, vals[i]); m != "" {
				return fmt.Sprintf("byte literal %d (%#x) rendered as `%s`: %s", i, vals[i], e, m)
			}
		}
		return ""
	}
	return "harness: byte literals in shape " + shape
}

func (c12) Oracle(c *Case, got []hist.Obs) string {
	if x, ok := c.Meta["conc"].(*c12Conc); ok {
		return x.oracle(got) // c12_conc.go: every output of every goroutine
	}
	if x, ok := c.Meta["ctx"].(*c12CtxCase); ok {
		return x.oracle(c, got) // c12_ctx.go: contexts and magic content
	}
	lits := c.Meta["lits"].([]c1xLit)
	shape := c.Meta["shape"].(string)
	src, msg := c1xOutput(got)
	if msg != "" {
		return msg
	}
	if lits[0].Kind == "byte" {
		msg = c12CheckBytes(shape, src, lits)
	} else {
		msg = c12CheckTokens(shape, src, lits)
	}
	if msg != "" {
		return msg
	}
	return c1xFuncOracle(c, src)
}

func (c12) Compare(c *Case, exp, got []hist.Obs) string {
	if x, ok := c.Meta["conc"].(*c12Conc); ok {
		return x.compare(exp, got)
	}
	return CompareAll(exp, got)
}

// ---------------------------------------------------------------------------------------
// Generator.

func c12StringTags(s string) []string {
	t := []string{}
	add := func(cond bool, tag string) {
		if cond {
			t = append(t, tag)
		}
	}
	add(s == "", "str:empty")
	add(strings.Contains(s, `"`), "str:quote")
	add(strings.Contains(s, "`"), "str:backquote")
	add(strings.Contains(s, `\`), "str:backslash")
	add(strings.ContainsAny(s, "\n\r"), "str:newline")
	add(strings.Contains(s, "\x00"), "str:nul")
	add(strings.Contains(s, "*/") || strings.Contains(s, "/*") || strings.Contains(s, "//"), "str:comment-marker")
	add(strings.Contains(s, "\xef\xbb\xbf"), "str:bom")
	add(strings.Contains(s, "\xe2\x80\xa8") || strings.Contains(s, "\xe2\x80\xa9"), "str:u2028")
	add(!utf8.ValidString(s), "str:invalid-utf8")
	add(len(s) >= 64, "str:len>=64")
	ctrl, nonascii, nonprint := false, false, false
	for _, r := range s {
		if r < 0x20 || r == 0x7f {
			ctrl = true
		}
		if r >= 0x80 && r != utf8.RuneError {
			nonascii = true
			if !strconv.IsPrint(r) {
				nonprint = true
			}
		}
	}
	add(ctrl, "str:control")
	add(nonascii, "str:non-ascii")
	add(nonprint, "str:non-printable-unicode")
	return t
}

// c12PlainString: every byte is printable ASCII other than the double quote, the backquote and the
// backslash: wrapping the bytes in quotes is already a correct literal.
func c12PlainString(s string) bool {
	for i := 0; i < len(s); i++ {
		if b := s[i]; b < 0x20 || b > 0x7e || b == '"' || b == '`' || b == '\\' {
			return false
		}
	}
	return true
}

func c12RuneTags(r rune) []string {
	var t []string
	switch {
	case r < 0x20 || r == 0x7f:
		t = append(t, "rune:control")
	case r < 0x80:
		t = append(t, "rune:ascii")
	case r < 0x100:
		t = append(t, "rune:latin1")
	case r < 0x800:
		t = append(t, "rune:2-byte")
	case r < 0x10000:
		t = append(t, "rune:3-byte")
	default:
		t = append(t, "rune:4-byte")
	}
	if r == '\'' || r == '\\' || r == '"' {
		t = append(t, "rune:quote-or-backslash")
	}
	if r >= 0x80 && !strconv.IsPrint(r) {
		t = append(t, "rune:non-printable-unicode")
	}
	return t
}

// c12Case.  NonTrivial means: at least one literal needs more than wrapping its bytes in
// quotes - a string holding a byte outside printable ASCII or a double quote, backquote or
// backslash; a rune outside printable ASCII or a single quote or backslash; a byte other than
// 0.  The report counts distinct serialised histories among those.
func c12Case(shape string, lits []c1xLit, noformat, funcForm bool, stream string) *Case {
	c := c1xCase(shape, lits, noformat, funcForm, stream)
	tagset := map[string]bool{}
	for _, l := range lits {
		switch l.Kind {
		case "lit":
			s := l.V.(string)
			for _, t := range c12StringTags(s) {
				tagset[t] = true
			}
			c.NonTrivial = c.NonTrivial || !c12PlainString(s)
		case "rune":
			r := l.V.(rune)
			for _, t := range c12RuneTags(r) {
				tagset[t] = true
			}
			c.NonTrivial = c.NonTrivial || r < 0x20 || r > 0x7e || r == '\'' || r == '\\'
		case "byte":
			tagset["byte"] = true
			c.NonTrivial = c.NonTrivial || l.V.(byte) != 0
		}
	}
	c.Tags = append(c.Tags, "kind="+map[string]string{"lit": "string", "rune": "rune", "byte": "byte"}[lits[0].Kind])
	c.Tags = append(c.Tags, sortedKeys(tagset)...)
	return c
}

func c12Str(s string) c1xLit   { return c1xLit{Kind: "lit", V: s} }
func c12Rune(r rune) c1xLit    { return c1xLit{Kind: "rune", V: r} }
func c12Byte(b byte) c1xLit    { return c1xLit{Kind: "byte", V: b} }
func c12ValidRune(r rune) bool { return r >= 0 && r <= 0x10ffff && !(r >= 0xd800 && r <= 0xdfff) }

var c12Targeted = []string{
	"", "a", " ", `"`, `""`, "`", "``", `\`, `\\`, `\"`, `"\`, "'", `'\''`, "\n", "\r\n", "a\nb", "\n\n", "\x00", "a\x00b", "\x00\x00",
	"\xff", "\xfe\xff", "\xc0\xaf", "\xed\xa0\x80", "\xed\xbf\xbf", "\xf4\x90\x80\x80", "\xe2\x82", "\xf0\x9f\x98", "a\xffb", "\x80", "\xc3", "\xc3\x28",
	"*/", "/*", "/* x */", "// c", "*/ func main() {} /*", `"; os.Exit(1); "`, `" + x + "`, "`+`", "`; panic(0); `", "\"\n}\nfunc init() { panic(1) }\nvar _ = \"",
	"\xef\xbb\xbf", "\xef\xbb\xbfabc", "a\xef\xbb\xbf", "\xe2\x80\xa8", "\xe2\x80\xa9", "a\xe2\x80\xa8b", "\u0085", "\xc2\xa0", "\xc2\xad", "\xe2\x80\x8b", "\xe2\x80\xae", "\xef\xbf\xbd", "\xef\xbf\xbf", "\xef\xbf\xbe",
	"\U0010ffff", "\U00010000", "\xed\x9f\xbf", "\xee\x80\x80", "\x7f", "\x1b[0m", "\a\b\f\n\r\t\v", "\t", "%d %s %%", "%!v(PANIC=", "${x}", `\x41`, "\\" + "u1234", `\n`, `\`,
	"\xe6\x97\xa5\xe6\x9c\xac\xe8\xaa\x9e", "\xc3\xa9", "e\xcc\x81", "\U0001F600", "\U000E0001", "\xcd\xb8", "tab\there", "func f() {\n\treturn \"x\"\n}", "x\"\ny := 1\nz := \"",
	"package q", "import \"os\"", "0", "1e-07", "true", "nil", "'a'", "byte(0x1)", ";", "; y", "x := 1; y",
}

type c12Gen struct {
	r   *rand.Rand
	out []*Case
}

func (g *c12Gen) fn() bool { return g.r.Intn(8) == 0 }

// spread: literals handed out to randomly chosen shapes (one or two per case).
func (g *c12Gen) spread(lits []c1xLit, stream string) {
	for len(lits) > 0 {
		shapes := []string{c1xVarPlain, c1xStmtPlain, c1xVarFile, c1xFuncFile}
		if lits[0].Kind == "byte" {
			shapes = []string{c1xVarPlain, c1xVarFile, c1xFuncFile}
		}
		sh := shapes[g.r.Intn(len(shapes))]
		n := c1xSlots(sh)
		if n > len(lits) {
			continue
		}
		g.out = append(g.out, c12Case(sh, lits[:n:n], g.r.Intn(2) == 0, g.fn(), stream))
		lits = lits[n:]
	}
}

// every: each literal in every shape (two-slot shape: the literal twice), formatted and not.
func (g *c12Gen) every(l c1xLit, stream string) {
	g.out = append(g.out, c12Case(c1xVarPlain, []c1xLit{l}, false, g.fn(), stream))
	if l.Kind != "byte" {
		g.out = append(g.out, c12Case(c1xStmtPlain, []c1xLit{l}, false, g.fn(), stream))
	}
	for _, nf := range []bool{false, true} {
		g.out = append(g.out, c12Case(c1xVarFile, []c1xLit{l}, nf, g.fn(), stream))
		g.out = append(g.out, c12Case(c1xFuncFile, []c1xLit{l, l}, nf, g.fn(), stream))
	}
}

func (g *c12Gen) batch(lits []c1xLit, per int, stream string) {
	for len(lits) > 0 {
		n := per
		if n > len(lits) {
			n = len(lits)
		}
		g.out = append(g.out, c12Case(c1xBatchFile, lits[:n:n], g.r.Intn(2) == 0, g.fn(), stream))
		lits = lits[n:]
	}
}

func c12RandomRune(r *rand.Rand) rune {
	for {
		var x rune
		switch r.Intn(8) {
		case 0:
			x = rune(r.Intn(0x80))
		case 1:
			x = rune(r.Intn(0x800))
		case 2, 3:
			x = rune(r.Intn(0x10000))
		case 4, 5:
			x = rune(0x10000 + r.Intn(0x100000))
		default:
			x = rune(r.Intn(0x110000))
		}
		if c12ValidRune(x) {
			return x
		}
	}
}

func (c12) Generate(r *rand.Rand, t string) []*Case {
	g := &c12Gen{r: r}
	thorough := t == "thorough"
	per := 64
	if thorough {
		per = 256
	}
	// ---- strings ----
	for _, s := range c12Targeted {
		g.every(c12Str(s), "string-targeted")
	}
	for _, n := range []int{50, 51, 1000} { // long runs of the characters that need escaping
		for _, ch := range []string{`"`, `\`, "`", "\n", "\xff", "\xe2\x80\xa8"} {
			g.spread([]c1xLit{c12Str(strings.Repeat(ch, n))}, "string-targeted")
		}
	}
	var one []c1xLit // every single byte, alone and between two letters
	for b := 0; b < 256; b++ {
		s := string([]byte{byte(b)})
		one = append(one, c12Str(s))
		g.spread([]c1xLit{c12Str(s), c12Str("x" + s + "y")}, "string-1byte")
	}
	g.batch(one, per, "string-1byte")
	var two []c1xLit
	if thorough { // every 2-byte string
		for i := 0; i < 65536; i++ {
			two = append(two, c12Str(string([]byte{byte(i >> 8), byte(i)})))
		}
	} else { // the characters that matter followed / preceded by every byte, and a random sample
		for _, a := range []byte{'"', '\\', '`', '\n', 0xff, 0xc3, 0xe2, 0xf0} {
			for b := 0; b < 256; b++ {
				two = append(two, c12Str(string([]byte{a, byte(b)})), c12Str(string([]byte{byte(b), a})))
			}
		}
		for i := 0; i < 2048; i++ {
			two = append(two, c12Str(string([]byte{byte(r.Intn(256)), byte(r.Intn(256))})))
		}
	}
	g.batch(two, per, "string-2byte")
	nstr := tier(t, 10000, 150000)
	var adv []c1xLit
	for i := 0; i < nstr; i++ {
		s := AdvString(r)
		if r.Intn(40) == 0 { // a long one
			var sb strings.Builder
			for k := 0; k < 5+r.Intn(60); k++ {
				sb.WriteString(AdvString(r))
			}
			s = sb.String()
		}
		adv = append(adv, c12Str(s))
	}
	g.spread(adv, "string-random")
	if thorough {
		var more []c1xLit
		for i := 0; i < 400000; i++ {
			more = append(more, c12Str(AdvString(r)))
		}
		g.batch(more, 64, "string-random-batch")
	}
	// ---- runes ---- (surrogates and values above U+10FFFF are outside the property's domain)
	seen := map[rune]bool{}
	var bnd []c1xLit
	addRune := func(x rune) {
		if c12ValidRune(x) && !seen[x] {
			seen[x] = true
			bnd = append(bnd, c12Rune(x))
		}
	}
	for _, x := range []rune{0, 0x7f, 0x80, 0x7ff, 0x800, 0xd7ff, 0xe000, 0xfeff, 0xfffd, 0xffff, 0x10000, 0x10ffff, 0x2028, 0x2029, '\'', '"', '\\', '\n', 0xad, 0x378, 0xe0001} {
		addRune(x - 1)
		addRune(x)
		addRune(x + 1)
	}
	for _, l := range bnd {
		g.every(l, "rune-boundary")
	}
	var low []c1xLit
	for x := rune(0); x < 0x100; x++ {
		low = append(low, c12Rune(x))
	}
	g.spread(low, "rune-below-0x100")
	g.batch(low, per, "rune-below-0x100")
	if thorough { // all 1,112,064 valid code points
		var all []c1xLit
		for x := rune(0); x <= 0x10ffff; x++ {
			if c12ValidRune(x) {
				all = append(all, c12Rune(x))
			}
		}
		g.batch(all, per, "rune-all")
	}
	var rr []c1xLit
	for i := 0; i < tier(t, 8000, 60000); i++ {
		rr = append(rr, c12Rune(c12RandomRune(r)))
	}
	g.spread(rr[:len(rr)/2], "rune-random")
	g.batch(rr[len(rr)/2:], 16, "rune-random")
	// ---- bytes: all 256, every shape ----
	var bs []c1xLit
	for b := 0; b < 256; b++ {
		g.every(c12Byte(byte(b)), "byte")
		bs = append(bs, c12Byte(byte(b)))
	}
	g.batch(bs, 256, "byte")
	g.batch(bs, 64, "byte")
	// ---- several goroutines at once (c12_conc.go); last: the draws of the streams above are unchanged ----
	g.out = append(g.out, c12ConcGenerate(r, t)...)
	// ---- round 6 (c12_ctx.go): code contexts, magic content, sizes; drawn after everything else.  The
	// size cases are put FIRST in the list: the model needs seconds for the largest ones and its
	// processes take the lines in order ----
	ctx := c12ContextCases(r, t)
	magic := c12MagicCases(r, t)
	size := c12SizeCases(r, t)
	out := append(size, g.out...)
	out = append(out, ctx...)
	return append(out, magic...)
}

func (c12) Regressions() []*Case {
	mk := func(name string, l c1xLit) *Case {
		c := c12Case(c1xFuncFile, []c1xLit{l, l}, false, true, "regression")
		c.Name = name
		return c
	}
	return []*Case{
		mk("string-quote-backquote-backslash", c12Str("\"`\\")),
		mk("string-newline-and-code", c12Str("x\"\ny := 1\nz := \"")),
		mk("string-invalid-utf8", c12Str("a\xff\xc0\xafb")),
		mk("string-comment-close", c12Str("*/ y /*")),
		mk("rune-single-quote", c12Rune('\'')),
		mk("rune-max", c12Rune(0x10ffff)),
		mk("rune-line-separator", c12Rune(0x2028)),
		mk("byte-255", c12Byte(255)),
		c12LitDefaultBeforeBlock(),
	}
}

// c12LitDefaultBeforeBlock: fixed defect 8235fd5 (known finding lit-default-before-block):
// If().Id("mode").Op("==").Lit("default").Block(Return()) rendered `if mode == "default" return`
// - the case-block rule looked only at the content of the item in front of the Block.
func c12LitDefaultBeforeBlock() *Case {
	for i := range c12Contexts {
		if c12Contexts[i].Name == "if-lit-block" {
			c := c12ContextCase(&c12Contexts[i], []c1xLit{c12Str("default")}, "plain", true, "regression")
			c.Name = "lit-default-before-block"
			return c
		}
	}
	panic("c12: context if-lit-block missing")
}

// Shrink: every literal of a multi-literal case on its own; a single string with one byte
// or one half removed.
func (c12) Shrink(c *Case) []*Case {
	if _, ok := c.Meta["conc"].(*c12Conc); ok {
		return c12ConcShrink(c)
	}
	if x, ok := c.Meta["ctx"].(*c12CtxCase); ok {
		return x.shrink()
	}
	lits := c.Meta["lits"].([]c1xLit)
	nf, fn := c.Meta["noformat"].(bool), c.Meta["func"].(bool)
	var out []*Case
	if len(lits) > 1 {
		for _, l := range lits {
			out = append(out, c12Case(c1xVarFile, []c1xLit{l}, nf, fn, "shrunk"))
		}
		return out
	}
	s, ok := lits[0].V.(string)
	if !ok || lits[0].Kind != "lit" || len(s) == 0 {
		return nil
	}
	shape := c.Meta["shape"].(string)
	if len(s) > 3 {
		out = append(out, c12Case(shape, []c1xLit{c12Str(s[:len(s)/2])}, nf, fn, "shrunk"), c12Case(shape, []c1xLit{c12Str(s[len(s)/2:])}, nf, fn, "shrunk"))
	}
	if len(s) > 4096 {
		// a large literal (stream size): halves and quarters only - every candidate costs the model
		// a noticeable time
		q := len(s) / 4
		out = append(out, c12Case(shape, []c1xLit{c12Str(s[:3*q])}, nf, fn, "shrunk"), c12Case(shape, []c1xLit{c12Str(s[q:])}, nf, fn, "shrunk"),
			c12Case(shape, []c1xLit{c12Str(s[:len(s)-len(s)/16-1])}, nf, fn, "shrunk"))
		return out
	}
	for i := 0; i < len(s) && i < 200; i++ {
		out = append(out, c12Case(shape, []c1xLit{c12Str(s[:i] + s[i+1:])}, nf, fn, "shrunk"))
	}
	return out
}
