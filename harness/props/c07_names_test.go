package props

import (
	"math/rand"
	"strings"
	"testing"

	"verifharness/hist"
)

func TestC07NamesHoldsOnTheImplementation(t *testing.T) {
	r := rand.New(rand.NewSource(7))
	seen := map[string]int{}
	for i := 0; i < 60; i++ {
		c := c07NamesCase(r)
		got := ExecFresh(c.Hist)
		if m := (c07{}).Oracle(c, got); m != "" {
			t.Fatalf("oracle rejects the implementation: %s\n%s", m, c.Hist.Sexp())
		}
		for _, tg := range c.Tags {
			seen[tg]++
		}
	}
	for _, tg := range []string{"twins", "third-call", "twin-before-and-after-everything", "caller-renames-entry", "caller-deletes-entry"} {
		if seen[tg] < 3 {
			t.Fatalf("tag %s only %d times", tg, seen[tg])
		}
	}
}

func TestC07NamesOracleRejects(t *testing.T) {
	r := rand.New(rand.NewSource(70))
	var c *Case
	var sp *c07nSpec
	for {
		c = c07NamesCase(r)
		sp = c.Meta["names"].(*c07nSpec)
		if len(sp.Twins) > 0 {
			break
		}
	}
	got := ExecFresh(c.Hist)
	// the twin shows another name for one path
	i, twin := 0, -1
	for _, st := range sp.Steps {
		if st.Mut != nil || !c07nObserving(st.Op.Kind) {
			continue
		}
		if st.F == sp.Twins[0][1] && st.Op.Kind == "render" && twin < 0 {
			twin = i
		}
		i++
	}
	bad := append([]hist.Obs{}, got...)
	bad[twin].Out = strings.Replace(bad[twin].Out, "X0", "Y0", 1)
	if m := c07NamesCheck(c, bad); !strings.Contains(m, "same sequence of calls") {
		t.Fatalf("twins that differ accepted: %q", m)
	}
	// a map object that was written to is reported by the executor as a bad observation
	bad = append([]hist.Obs{}, got...)
	bad[len(bad)-1].Msg = c07nFault + "the caller's map \"shared\" was written to by ImportNames"
	if m := c07NamesCheck(c, bad); !strings.Contains(m, "written to") {
		t.Fatalf("a modified caller's map accepted: %q", m)
	}
	// an implementation whose output depends on what was built before: the first render of a
	// run is marked
	defer func(f func(hist.History) []hist.Obs) { c07Exec = f }(c07Exec)
	c07Exec = func(h hist.History) []hist.Obs {
		obs := ExecFresh(h)
		for k := range obs {
			if obs[k].Kind == "write" {
				obs[k].Out += "// first\n"
				break
			}
		}
		return obs
	}
	if m := c07NamesCheck(c, got); !strings.Contains(m, "another order") {
		t.Fatalf("order-dependent output accepted: %q", m)
	}
}

// The executor notices a map object that does not hold what the caller put there.
func TestC07NamesExecutorChecksTheMaps(t *testing.T) {
	r := rand.New(rand.NewSource(71))
	c := c07NamesCase(r)
	sp := c.Meta["names"].(*c07nSpec)
	sp.Final["shared"]["leaked.example/x"] = "x" // the caller's view now differs from the object
	got := ExecFresh(c.Hist)
	if last := got[len(got)-1]; !strings.HasPrefix(last.Msg, c07nFault) || !strings.Contains(last.Msg, "written to") {
		t.Fatalf("the final check of the map objects did not fire: %s", last)
	}
}
