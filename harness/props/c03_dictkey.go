package props

import (
	"fmt"
	"math/rand"
	"sort"
	"strings"

	"verifharness/hist"
	"verifharness/term"
)

// ---- round 7: qualified identifiers as KEYS of a Dict (streams "dict-key" of C03 and C18) ------
//
// Dict.render renders its keys twice: once into scratch buffers (to sort the pairs by the key
// texts) and once into the output.  A Qual used as a key is therefore registered in the import
// table by the FIRST pass, at a point where nothing of the Dict has been written yet, and has to
// be written with the same qualifier by the second.  RefBody (refs.go) puts Quals into Dict
// VALUES only; here they are keys, in every relation to the rest of the file:
//
//	key-only                the key is the ONLY reference to its package (the import must appear)
//	key-only-twice          two keys of one Dict name the same package, nothing else does
//	other-registered-before a package with the same name was referenced by an earlier statement
//	other-registered-after  ... is referenced by a later statement (and the key's package again after that)
//	two-dicts               the two colliding packages are keys of two different Dicts
//	same-dict-one-registered both are keys of ONE Dict, one of them was referenced before
//	same-dict-both-new      both are keys of ONE Dict and neither was referenced before: the
//	                        recorded finding dict-keys-register-in-map-order (which of the two gets
//	                        the number depends on the map iteration order).  These cases carry
//	                        Meta["weak"]: the comparison with the model is order-insensitive (kinds,
//	                        imported paths, number of lines of the output); the oracle is the
//	                        same as for all others - it does not care about who gets which number,
//	                        only that every qualifier is bound to its own path.
//	nested-dict-key         the Dict with the key is the VALUE of a pair of another Dict
//	key-and-value           key of one package, value of the colliding one, in one pair
//	same-path-before        control: the key's own package was referenced before
//
// every one optionally with a further key of an unrelated package and with literal keys next to
// the Qual keys (so that the literal is multi-line and sorted).

type dkKV struct{ K, V string } // path of the Qual ("" = an integer literal)

type dkItem struct {
	Plain  string // `var _ = Qual(Plain, ..)`
	Pairs  []dkKV // or `var _ = map[int]int{...}` built with Values(Dict{...})
	Nested bool   // ... wrapped: map[int]int{n: map[int]int{...}}
}

type dkScenario struct {
	Tag   string
	Items []dkItem
}

// dkScenarios: the shapes above for the colliding paths a, b and the unrelated path c.
func dkScenarios(a, b, c string) []dkScenario {
	k := func(ps ...string) dkItem {
		it := dkItem{}
		for _, p := range ps {
			it.Pairs = append(it.Pairs, dkKV{K: p})
		}
		return it
	}
	pl := func(p string) dkItem { return dkItem{Plain: p} }
	nested := k(a, "")
	nested.Nested = true
	return []dkScenario{
		{"key-only", []dkItem{k(a)}},
		{"key-only", []dkItem{k(a, "")}},
		{"key-only-twice", []dkItem{k(a, a, "")}},
		{"key-only+unrelated-key", []dkItem{k(c, a)}},
		{"other-registered-before", []dkItem{pl(b), k("", a)}},
		{"other-registered-before", []dkItem{pl(c), pl(b), k(a, c)}},
		{"other-registered-after", []dkItem{k(a, a), pl(b), pl(a)}},
		{"other-registered-after", []dkItem{k(a), pl(c), pl(b)}},
		{"two-dicts", []dkItem{k(a, ""), k(b, "")}},
		{"same-dict-one-registered", []dkItem{pl(a), k(a, b)}},
		{"same-dict-one-registered", []dkItem{pl(b), k("", a, b), pl(a)}},
		{"same-dict-both-new", []dkItem{k(a, b)}},
		{"same-dict-both-new", []dkItem{pl(c), k(b, "", a), pl(b), pl(a)}},
		{"nested-dict-key", []dkItem{pl(b), nested}},
		{"nested-dict-key", []dkItem{nested, pl(b)}},
		{"key-and-value", []dkItem{{Pairs: []dkKV{{K: a, V: b}, {}}}}},
		{"key-and-value", []dkItem{pl(b), {Pairs: []dkKV{{K: a, V: b}, {K: "", V: a}}}}},
		{"same-path-before", []dkItem{pl(a), k(a, "")}},
	}
}

// dkBuild builds the statements.  Every Qual is a reference of its own: the k-th one is
// Qual(paths[k], name(k)), so paths has one entry per reference (a path may occur several times).
func dkBuild(items []dkItem, name func(k int) string) (stmts []*term.Stmt, paths []string) {
	lit := 0
	q := func(p string) term.Node {
		if p == "" {
			lit++
			return term.S(term.Lit(lit * 7))
		}
		paths = append(paths, p)
		return term.S(term.Qual(p, name(len(paths)-1)))
	}
	mapOf := func(d *term.Dict) []term.Node {
		return []term.Node{term.G("Map", term.S(term.Named("Int"))), term.Named("Int"), term.G("Values", d)}
	}
	for _, it := range items {
		if it.Pairs == nil {
			stmts = append(stmts, term.S(term.Named("Var"), term.Id("_"), term.Op("="), q(it.Plain)))
			continue
		}
		d := &term.Dict{}
		for _, kv := range it.Pairs {
			key := q(kv.K)
			d.Pairs = append(d.Pairs, [2]term.Node{key, q(kv.V)})
		}
		if it.Nested {
			lit++
			d = &term.Dict{Pairs: [][2]term.Node{{term.S(term.Lit(lit * 7)), term.S(mapOf(d)...)}}}
		}
		stmts = append(stmts, term.S(append([]term.Node{term.Named("Var"), term.Id("_"), term.Op("=")}, mapOf(d)...)...))
	}
	return stmts, paths
}

// dkWeak: some Dict has two different key paths of one collision group that no earlier statement
// (and no earlier Dict) has registered - the recorded finding, see above.  group maps a path to
// the name it competes for.
func dkWeak(items []dkItem, group func(string) string) bool {
	reg := map[string]bool{}
	for _, it := range items {
		if it.Pairs == nil {
			reg[it.Plain] = true
			continue
		}
		fresh := map[string]string{} // group -> path
		for _, kv := range it.Pairs {
			if kv.K == "" || reg[kv.K] {
				continue
			}
			g := group(kv.K)
			if p, ok := fresh[g]; ok && p != kv.K {
				return true
			}
			fresh[g] = kv.K
		}
		for _, kv := range it.Pairs {
			for _, p := range []string{kv.K, kv.V} {
				if p != "" {
					reg[p] = true
				}
			}
		}
	}
	return false
}

func dkTags(sc dkScenario, weak bool) []string {
	tags := []string{"dict-key=" + sc.Tag}
	nd, nk := 0, 0
	for _, it := range sc.Items {
		if it.Pairs != nil {
			nd++
			for _, kv := range it.Pairs {
				if kv.K != "" {
					nk++
				}
			}
			if it.Nested {
				tags = append(tags, "dict-nested")
			}
		}
	}
	tags = append(tags, fmt.Sprintf("dicts=%d", nd), fmt.Sprintf("qual-keys=%d", nk))
	if weak {
		tags = append(tags, "known=dict-keys-register-in-map-order", "compare=order-insensitive")
	} else {
		tags = append(tags, "compare=bytes")
	}
	return tags
}

// weakOrderCompare: what does not depend on the order in which the keys of a Dict are
// registered - kinds of the observations, set of imported paths, success and number of lines of
// the output.  (Not the multiset of bytes, as C07 does for user paths: here one of the two may be
// a path that needs no alias when it gets the plain name - "net/http" / http1 "x.y/http" against
// http1 "net/http" / http "x.y/http" - and with a prefix a hinted name is taken unprefixed.)
func weakOrderCompare(exp, got []hist.Obs) string {
	if len(exp) != len(got) {
		return fmt.Sprintf("observation count differs: model %d, implementation %d", len(exp), len(got))
	}
	for i := range exp {
		if exp[i].Kind != got[i].Kind {
			return fmt.Sprintf("observation %d differs in kind:\n  model: %s\n  impl:  %s", i, exp[i], got[i])
		}
		switch exp[i].Kind {
		case "write", "fmterr":
			if exp[i].Failed != got[i].Failed || strings.Count(exp[i].Out, "\n") != strings.Count(got[i].Out, "\n") {
				return fmt.Sprintf("observation %d differs in success or number of lines:\n  model: %s\n  impl:  %s", i, exp[i], got[i])
			}
		case "imports":
			var a, b []string
			for _, im := range exp[i].Imports {
				a = append(a, im.Path)
			}
			for _, im := range got[i].Imports {
				b = append(b, im.Path)
			}
			sort.Strings(a)
			sort.Strings(b)
			if strings.Join(a, "\n") != strings.Join(b, "\n") {
				return fmt.Sprintf("imported paths differ:\n  model: %q\n  impl:  %q", a, b)
			}
		}
	}
	return ""
}

// ---- C03 ------------------------------------------------------------------------------------

// c03DictKeyPairs: (a, b, hints) - two paths that compete for one name: the same last element
// under two hosts, other spellings that guess to the same name, std pairs that declare the
// same name, a std package and a user path ending in its name, a path GIVEN the other's name
// by ImportName / ImportAlias, a path whose own name is the other's name + "1".
type c03dkPair struct {
	A, B  string
	Hints hist.History
	Tag   string
}

func c03DictKeyPairs() []c03dkPair {
	out := []c03dkPair{
		{A: "a.b/first/conf", B: "c.d/second/conf", Tag: "same-last-element"},
		{A: "h.io/Store", B: "k.io/-store-", Tag: "other-spelling"},
		{A: "h.io/st.ore", B: "k.io/9store", Tag: "other-spelling"},
		{A: "math/rand", B: "crypto/rand", Tag: "std-pair"},
		{A: "crypto/rand", B: "math/rand", Tag: "std-pair"},
		{A: "text/template", B: "html/template", Tag: "std-pair"},
		{A: "html/template", B: "text/template", Tag: "std-pair"},
		{A: "runtime/pprof", B: "net/http/pprof", Tag: "std-pair"},
		{A: "net/http/pprof", B: "runtime/pprof", Tag: "std-pair"},
		{A: "net/http", B: "x.y/http", Tag: "std+user"},
		{A: "x.y/fmt", B: "fmt", Tag: "std+user"},
		{A: "a.b/x", B: "c.d/x1", Tag: "name+number"}, // b holds the name a would get as second
		{A: "c.d/x1", B: "a.b/x", Tag: "name+number"},
		{A: "a.b/type", B: "c.d/type", Tag: "keyword-element"},
		{A: "a.b/len", B: "c.d/len", Tag: "predeclared-element"},
		{A: "h.io/éab", B: "k.io/ab", Tag: "unicode-element"},
		{A: "a.b/9", B: "c.d/--", Tag: "nothing-left(pkg)"},
	}
	for _, kind := range []string{"importname", "importalias"} {
		out = append(out,
			c03dkPair{A: "z.io/other", B: "a.b/store", Hints: hist.History{{Kind: kind, F: 0, A: "z.io/other", B: "store"}}, Tag: "hinted-" + kind},
			c03dkPair{A: "a.b/store", B: "z.io/other", Hints: hist.History{{Kind: kind, F: 0, A: "z.io/other", B: "store"}}, Tag: "hinted-" + kind},
			c03dkPair{A: "z.io/one", B: "z.io/two", Hints: hist.History{{Kind: kind, F: 0, A: "z.io/one", B: "nm"}, {Kind: kind, F: 0, A: "z.io/two", B: "nm"}}, Tag: "hinted-" + kind + "-both"})
	}
	return out
}

var c03dkUnrelated = []string{"os", "x.y/zed", "k0.io/kalpha", "strings"}

// c03DictKeyCases: quick: every pair x every scenario once (prefix, NoFormat, constructor and
// the unrelated path rotate); thorough: x prefix off/on x NoFormat off/on.
func c03DictKeyCases(r *rand.Rand, t string) []*Case {
	var out []*Case
	n := 0
	for _, pr := range c03DictKeyPairs() {
		for si := range dkScenarios("", "", "") {
			for v := 0; v < tier(t, 1, 4); v++ {
				n++
				prefix, noformat := n%3 == 0, n%2 == 0
				if t == "thorough" {
					prefix, noformat = v&1 != 0, v&2 != 0
				}
				c := c03dkUnrelated[n%len(c03dkUnrelated)]
				sc := dkScenarios(pr.A, pr.B, c)[si]
				setup := hist.History{{Kind: "newfile", F: 0, A: "p"}}
				local := ""
				if n%5 == 0 {
					local = "own.io/self"
					setup = hist.History{{Kind: "newfilepath", F: 0, A: local}}
				}
				if prefix {
					setup = append(setup, hist.Op{Kind: "prefix", F: 0, A: "pkg"})
				}
				setup = append(setup, pr.Hints...)
				stmts, paths := dkBuild(sc.Items, func(k int) string { return fmt.Sprintf("V%d_%d", k, k) })
				rc, h := BuildRefCase(r, paths, setup, local, nil, nil)
				for i := range paths {
					rc.Rendered[i] = true
				}
				for _, st := range stmts {
					h = append(h, hist.Op{Kind: "fadd", F: 0, Code: st})
				}
				h = append(h, hist.Op{Kind: "noformat", F: 0, Flag: noformat}, hist.Op{Kind: "render", F: 0}, hist.Op{Kind: "imports", F: 0})
				// two paths compete iff they are the pair (the unrelated path competes with nothing)
				weak := dkWeak(sc.Items, func(p string) string {
					if p == pr.A || p == pr.B {
						return "pair"
					}
					return p
				})
				tags := append(dkTags(sc, weak), "pair="+pr.Tag, "prefix="+onoff(prefix), fmt.Sprintf("noformat=%v", noformat), fmt.Sprintf("local=%v", local != ""))
				meta := map[string]interface{}{"rc": rc}
				if weak {
					meta["weak"] = true
				}
				// NonTrivial: at least one Qual is the key of a Dict (always, by construction: measured)
				nt := false
				for _, it := range sc.Items {
					for _, kv := range it.Pairs {
						nt = nt || kv.K != ""
					}
				}
				out = append(out, &Case{Hist: h, Stream: "dict-key", NonTrivial: nt, Tags: tags, Meta: meta})
			}
		}
	}
	return out
}

// ---- stream "unicode-path-elements" of C03 ------------------------------------------------------
//
// The alphabet of the last path element, taken from C05's stream of the same name (c05.go:
// c05UnicodeCase places a piece as the whole element, first, middle, last, next to ASCII
// digits, doubled ...; alone, next to the same element under another host, next to the ASCII
// remainder, with a trailing slash; prefix and NoFormat rotate): here the pieces are the runes
// that a "Unicode aware" guess of the alias is tempted to keep - letters of every case and
// script, decimal digits (Nd: legal in identifiers, not first) and the OTHER numbers (No, Nl:
// superscripts, subscripts, fractions, Roman numerals, circled digits - unicode.IsNumber, but
// not legal in Go identifiers).  The oracle is the reference resolution of every C03 stream.
var c03UnicodeCats = []string{"Ll", "Lu", "Lt", "Lm", "Lo", "Nd", "Nl", "No"}

var c03UnicodeExtra = []struct{ tag, s string }{
	{"No", "²"}, {"No", "³"}, {"No", "¹"}, {"No", "₂"}, {"No", "⁰"}, {"No", "½"}, {"No", "¼"}, {"No", "①"}, {"No", "㈠"},
	{"Nl", "Ⅷ"}, {"Nl", "ⅷ"}, {"Nl", "Ⅰ"}, {"Nl", "〇"}, {"Nl", "ᛮ"},
	{"Nd", "٣"}, {"Nd", "１"}, {"Nd", "१"},
}

func c03UnicodeCases(r *rand.Rand, t string) []*Case {
	var out []*Case
	i := 0
	isLN := func(tag string) bool { return tag[0] == 'L' || tag[0] == 'N' }
	add := func(cat, x string, positions []int) {
		ocat := c03UnicodeCats[r.Intn(len(c03UnicodeCats))]
		ol := c05Category(ocat)
		other := string(ol[r.Intn(len(ol))])
		for _, pos := range positions {
			c := c05UnicodeCase(r, i, cat, x, other, pos)
			out = append(out, c)
			i++
		}
	}
	allPos := make([]int, c05Positions)
	for k := range allPos {
		allPos[k] = k
	}
	some := func(n int) []int {
		p := r.Perm(c05Positions)
		return p[:n]
	}
	for _, e := range c03UnicodeExtra {
		add(e.tag, e.s, allPos)
	}
	for _, e := range c05Exemplars {
		if isLN(e.tag) {
			add(e.tag, e.s, some(tier(t, 4, c05Positions)))
		}
	}
	for _, cat := range c03UnicodeCats {
		l := c05Category(cat)
		if len(l) == 0 {
			continue
		}
		if t == "thorough" && cat[0] == 'N' {
			for _, c := range l {
				add(cat, string(c), some(2))
			}
			continue
		}
		for k := tier(t, 5, 300); k > 0; k-- {
			add(cat, string(l[r.Intn(len(l))]), some(tier(t, 2, 4)))
		}
	}
	return out
}
