package props

import (
	"math/rand"
	"strings"
	"testing"

	"verifharness/hist"
)

// The oracle of the C03 / C05 streams rejects the outputs the round-3 seeds produced (an
// import name that is no identifier; two imports under one numbered name) and accepts what
// the implementation the test is built against renders for the new streams.
func TestRefOracleRejectsIllegalAndDuplicateNames(t *testing.T) {
	rc := &RefCase{Paths: []string{"example.com/h²o"}, Rendered: map[int]bool{0: true}, Anon: map[string]bool{}, Hints: map[string][2]string{}}
	bad := "package p\n\nimport h²o \"example.com/h²o\"\n\nvar _ = h²o.V0_1\n"
	if m := rc.Resolve(bad); m == "" {
		t.Errorf("import name with U+00B2 accepted")
	}
	good := "package p\n\nimport ho \"example.com/h²o\"\n\nvar _ = ho.V0_1\n"
	if m := rc.Resolve(good); m != "" {
		t.Errorf("legal output rejected: %s", m)
	}
	rc2 := &RefCase{Paths: []string{"a/store", "b/store", "kv/store2", "c/store"}, Rendered: map[int]bool{0: true, 1: true, 2: true, 3: true}, Anon: map[string]bool{}, Hints: map[string][2]string{}}
	dup := "package p\n\nimport (\n\tstore \"a/store\"\n\tstore1 \"b/store\"\n\tstore2 \"c/store\"\n\tstore2 \"kv/store2\"\n)\n\nvar _ = f(store.V0_1, store1.V1_2, store2.V2_3, store2.V3_4)\n"
	if m := rc2.Resolve(dup); !strings.Contains(m, "both imported under the name store2") {
		t.Errorf("duplicate import name not reported: %q", m)
	}
	ok := strings.Replace(strings.Replace(dup, "store2 \"c/store\"", "store3 \"c/store\"", 1), "store2.V3_4", "store3.V3_4", 1)
	if m := rc2.Resolve(ok); m != "" {
		t.Errorf("legal output rejected: %s", m)
	}
}

func TestC05UnicodeAndC03CollisionStreams(t *testing.T) {
	r := rand.New(rand.NewSource(11))
	cats := map[string]bool{}
	cases := c05UnicodeStream(r, "quick")
	for i := 0; i < 400; i++ {
		cases = append(cases, c03CollisionCase(r, i))
	}
	for _, c := range cases {
		for _, tg := range c.Tags {
			if strings.HasPrefix(tg, "cat=") {
				cats[tg[4:]] = true
			}
		}
		got := hist.NewWorld().Exec(c.Hist)
		if m := refOracle(c, got); m != "" {
			t.Errorf("%v: %s\n%s", c.Tags, m, c.Hist.Sexp())
		}
	}
	for _, want := range append(c05Categories(), "invalid-utf8", "random-bytes", "random-rune") {
		if !cats[want] {
			t.Errorf("category %s is not generated", want)
		}
	}
}
