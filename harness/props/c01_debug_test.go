package props

import (
	"fmt"
	"go/ast"
	"go/parser"
	"go/token"
	"math/rand"
	"os"
	"sort"
	"strconv"
	"strings"
	"testing"

	"verifharness/hist"
)

// C01_DEBUG_SEED=<seed> go test -run TestC01Debug: reruns the generated stream of that seed
// on the implementation only and writes failing sources / outputs to C01_DEBUG_DIR.
func TestC01Debug(t *testing.T) {
	sd := os.Getenv("C01_DEBUG_SEED")
	if sd == "" {
		t.Skip()
	}
	seed, _ := strconv.ParseInt(sd, 10, 64)
	dir := os.Getenv("C01_DEBUG_DIR")
	p := &c01{sum: map[string]*c01Sum{}}
	r := rand.New(rand.NewSource(seed))
	p.gorootStream(r, "quick", "/nonexistent", "goroot")
	n := 0
	for i, c := range p.generatedStream(r, os.Getenv("C01_DEBUG_TIER")) {
		if c.Meta["skip"] != nil {
			continue
		}
		got := hist.NewWorld().Exec(c.Hist)
		if v := p.Oracle(c, got); v != "" {
			n++
			if n > 6 {
				continue
			}
			t.Errorf("case %d: %s", i, v[:c01Min(len(v), 700)])
			if dir != "" {
				os.WriteFile(fmt.Sprintf("%s/fail%d_src.go", dir, i), []byte(c.Meta["src"].(string)), 0644)
				os.WriteFile(fmt.Sprintf("%s/fail%d_out.go", dir, i), []byte(got[0].Out), 0644)
				h2 := append(hist.History{}, c.Hist...)
				for k := range h2 {
					if h2[k].Kind == "noformat" {
						h2[k].Flag = true
					}
				}
				raw := hist.NewWorld().Exec(h2)
				os.WriteFile(fmt.Sprintf("%s/fail%d_raw.go", dir, i), []byte(raw[0].Out), 0644)
			}
		}
	}
	t.Logf("%d failures", n)
	_ = strings.Join
}

// C01_REDUCE=<file> go test -run TestC01Reduce: greedy text-level reduction (cut the
// source range of a declaration / statement, replace the range of an expression by x) of
// a file whose gofmt output does not re-parse to the same tree.
func TestC01Reduce(t *testing.T) {
	fn := os.Getenv("C01_REDUCE")
	if fn == "" {
		t.Skip()
	}
	b, _ := os.ReadFile(fn)
	src := string(b)
	bad := func(s string) bool {
		if _, err := parser.ParseFile(token.NewFileSet(), "x.go", s, 0); err != nil {
			return false
		}
		return GofmtStable([]byte(s)) != ""
	}
	if !bad(src) {
		t.Fatal("gofmt keeps this file")
	}
	for changed := true; changed; {
		changed = false
		fset := token.NewFileSet()
		f, err := parser.ParseFile(fset, "x.go", src, parser.SkipObjectResolution)
		if err != nil {
			t.Fatal(err)
		}
		type span struct {
			lo, hi int
			repl   string
		}
		var spans []span
		off := func(p token.Pos) int { return fset.Position(p).Offset }
		ast.Inspect(f, func(n ast.Node) bool {
			switch x := n.(type) {
			case ast.Decl:
				spans = append(spans, span{off(x.Pos()), off(x.End()), ""})
			case ast.Stmt:
				spans = append(spans, span{off(x.Pos()), off(x.End()), ""})
				if _, ok := x.(*ast.BlockStmt); ok {
					spans = append(spans, span{off(x.Pos()), off(x.End()), "{}"})
				}
			case ast.Expr:
				spans = append(spans, span{off(x.Pos()), off(x.End()), "x"})
			case *ast.Field:
				spans = append(spans, span{off(x.Pos()), off(x.End()), ""})
			}
			return true
		})
		// larger spans first
		sort.Slice(spans, func(i, j int) bool { return spans[i].hi-spans[i].lo > spans[j].hi-spans[j].lo })
		for _, sp := range spans {
			if sp.hi-sp.lo <= len(sp.repl) {
				continue
			}
			cand := src[:sp.lo] + sp.repl + src[sp.hi:]
			if bad(cand) {
				src = cand
				changed = true
				break
			}
		}
	}
	t.Logf("reduced:\n%s\n-- gofmt verdict: %s", src, GofmtStable([]byte(src)))
}

// C01_LINE=<go file> C01_LINE_OUT=<file>: writes the case line of one source file.
func TestC01Line(t *testing.T) {
	fn := os.Getenv("C01_LINE")
	if fn == "" {
		t.Skip()
	}
	b, _ := os.ReadFile(fn)
	p := &c01{sum: map[string]*c01Sum{}}
	c := p.c01Case("t", fn, b, rand.New(rand.NewSource(1)), "", genPkgNameOrStd, true)
	if c.Meta["skip"] != nil {
		t.Fatal(c.Meta["skip"])
	}
	os.WriteFile(os.Getenv("C01_LINE_OUT"), []byte(c.Hist.Sexp()+"\n"), 0644)
}
