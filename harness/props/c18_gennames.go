package props

import (
	"bytes"
	"context"
	"encoding/hex"
	"fmt"
	"go/ast"
	"go/format"
	"go/parser"
	"go/token"
	"math/rand"
	"os"
	"os/exec"
	"path/filepath"
	"regexp"
	"sort"
	"strconv"
	"strings"
	"sync"
	"time"

	"verifharness/hist"
	"verifharness/term"
)

// C18, stream "gennames-stub": the gennames tool against listings it has never seen.
//
// The tool is built once from the working tree (as RunGennames does).  For every case a
// stub executable named `go` is put first on PATH; it prints the case's listing (the bytes
// a `go list -e -f "{{ .Standard }} {{ .ImportPath }} {{ .Name }}"` would print) and exits
// with the case's status.  The real gennames runs against it and writes its file; the
// table, the order of the entries in the file and the file's bytes are compared with the
// model of the tool (coq/Model/Gennames.v, case kind `(gennames)`), and an oracle that
// knows nothing of the model decides: no invented names, no `main`, no line of the wrong
// -standard class, no vendored line under -novendor, every eligible line represented, first
// non-empty name wins, entries sorted.
//
// The stub learns what to print from $HOME (gennames passes GOPATH, GOROOT and HOME to
// `go list`, nothing else): $HOME/listing, $HOME/status; it records its arguments and
// working directory in $HOME/args.

type gnCase struct {
	Standard, Novendor bool
	Filter             string // "" = the default -filter ".*"; otherwise a literal (passed as regexp.QuoteMeta)
	Pkg, Name          string
	Out                string // what `go list` prints on stdout
	Fail               bool   // `go list` exits with status 1
}

// gnResult is what one run of the real tool gave.
type gnResult struct {
	outcome string      // written | panic | fail | bad
	msg     string      // panic message / diagnosis
	pairs   [][2]string // entries in file order
	file    string      // bytes of the file
	args    []string    // arguments the stub was called with
	dir     string      // its working directory
	gopath  string
}

var (
	gnDir    string // holds the gennames binary and the stub directory; removed by Close
	gnBin    string
	gnStub   string // directory holding the stub `go`
	gnErr    error
	gnDirsMu sync.Mutex
)

const gnStubSrc = `package main

import (
	"os"
	"strconv"
	"strings"
)

func main() {
	home := os.Getenv("HOME")
	wd, _ := os.Getwd()
	os.WriteFile(home+"/args", []byte(strings.Join(append([]string{wd}, os.Args[1:]...), "\x00")), 0644)
	b, err := os.ReadFile(home + "/listing")
	if err != nil {
		os.Stderr.WriteString("stub go: " + err.Error() + "\n")
		os.Exit(3)
	}
	os.Stdout.Write(b)
	st, _ := os.ReadFile(home + "/status")
	n, _ := strconv.Atoi(strings.TrimSpace(string(st)))
	if n != 0 {
		os.Stderr.WriteString("stub go: asked to fail\n")
	}
	os.Exit(n)
}
`

// gnSetup builds gennames from the working tree and the stub, once per run (until Close).
func gnSetup() error {
	gnDirsMu.Lock()
	defer gnDirsMu.Unlock()
	if gnDir != "" || gnErr != nil {
		return gnErr
	}
	func() {
		dir, err := os.MkdirTemp("", "verif-c18-stub-")
		if err != nil {
			gnErr = err
			return
		}
		gnDir = dir
		ctx, cancel := context.WithTimeout(context.Background(), 5*time.Minute)
		defer cancel()
		gnBin = filepath.Join(dir, "gennames")
		repo := RepoDir()
		b := exec.CommandContext(ctx, "go", "build", "-o", gnBin, "./gennames")
		b.Dir = repo
		b.Env = envWith("GOFLAGS=-mod=mod", "GOPROXY=off")
		if out, err := b.CombinedOutput(); err != nil {
			gnErr = fmt.Errorf("go build ./gennames in %s: %v: %s", repo, err, truncateStr(string(out), 1000))
			return
		}
		gnStub = filepath.Join(dir, "stubbin")
		src := filepath.Join(dir, "stubsrc")
		if err := os.MkdirAll(gnStub, 0755); err != nil {
			gnErr = err
			return
		}
		if err := os.MkdirAll(src, 0755); err != nil {
			gnErr = err
			return
		}
		if err := os.WriteFile(filepath.Join(src, "main.go"), []byte(gnStubSrc), 0644); err != nil {
			gnErr = err
			return
		}
		if err := os.WriteFile(filepath.Join(src, "go.mod"), []byte("module verifstubgo\n\ngo 1.18\n"), 0644); err != nil {
			gnErr = err
			return
		}
		s := exec.CommandContext(ctx, "go", "build", "-o", filepath.Join(gnStub, "go"), ".")
		s.Dir = src
		s.Env = envWith("GOFLAGS=-mod=mod", "GOPROXY=off", "CGO_ENABLED=0")
		if out, err := s.CombinedOutput(); err != nil {
			gnErr = fmt.Errorf("go build of the stub: %v: %s", err, truncateStr(string(out), 1000))
		}
	}()
	return gnErr
}

// Close removes the run-time directory of the stub stream (props.Closer).
func (c18) Close() {
	gnDirsMu.Lock()
	defer gnDirsMu.Unlock()
	if gnDir != "" {
		os.RemoveAll(gnDir)
	}
	gnDir, gnErr = "", nil // a later Generate in the same process builds again
}

var gnPanicRe = regexp.MustCompile(`(?m)^panic: (.*)$`)

// runGennamesStub runs the real tool on one listing.
func runGennamesStub(g gnCase) (res gnResult) {
	if err := gnSetup(); err != nil {
		return gnResult{outcome: "bad", msg: "the gennames tool cannot be built: " + err.Error()}
	}
	home, err := os.MkdirTemp("", "verif-c18-case-")
	if err != nil {
		return gnResult{outcome: "bad", msg: err.Error()}
	}
	defer os.RemoveAll(home)
	gopath := filepath.Join(home, "gopath")
	if err := os.MkdirAll(filepath.Join(gopath, "src"), 0755); err != nil {
		return gnResult{outcome: "bad", msg: err.Error()}
	}
	status := "0"
	if g.Fail {
		status = "1"
	}
	os.WriteFile(filepath.Join(home, "listing"), []byte(g.Out), 0644)
	os.WriteFile(filepath.Join(home, "status"), []byte(status), 0644)
	outFile := filepath.Join(home, "names.go")
	var args []string
	if g.Standard {
		args = append(args, "-standard")
	}
	if g.Novendor {
		args = append(args, "-novendor")
	}
	if g.Filter != "" {
		args = append(args, "-filter", regexp.QuoteMeta(g.Filter))
	}
	args = append(args, "-output", outFile, "-package", g.Pkg, "-name", g.Name, "-path", "verif/stub/...")
	ctx, cancel := context.WithTimeout(context.Background(), 2*time.Minute)
	defer cancel()
	run := exec.CommandContext(ctx, gnBin, args...)
	run.Dir = home
	run.Env = envWith("PATH="+gnStub+string(os.PathListSeparator)+os.Getenv("PATH"), "HOME="+home, "GOPATH="+gopath, "GOFLAGS=-mod=mod", "GOPROXY=off", "GOTRACEBACK=single")
	var eb bytes.Buffer
	run.Stderr, run.Stdout = &eb, &eb
	rerr := run.Run()
	res.gopath = gopath
	if a, err := os.ReadFile(filepath.Join(home, "args")); err == nil {
		parts := strings.Split(string(a), "\x00")
		res.dir, res.args = parts[0], parts[1:]
	}
	src, ferr := os.ReadFile(outFile)
	code := 0
	if rerr != nil {
		ee, ok := rerr.(*exec.ExitError)
		if !ok {
			return gnResult{outcome: "bad", msg: "gennames could not be run: " + rerr.Error()}
		}
		code = ee.ExitCode()
	}
	switch {
	case code == 0 && ferr == nil:
		pairs, err := parseNamePairs(string(src), g.Pkg, g.Name)
		if err != nil {
			res.outcome, res.msg = "bad", err.Error()+"\n"+truncateStr(string(src), 600)
			return res
		}
		res.outcome, res.pairs, res.file = "written", pairs, string(src)
	case code == 0:
		res.outcome, res.msg = "bad", "gennames exited with status 0 but wrote no file: "+truncateStr(eb.String(), 600)
	case ferr == nil:
		res.outcome, res.msg = "bad", fmt.Sprintf("gennames exited with status %d and still wrote a file", code)
	case code == 2 && gnPanicRe.MatchString(eb.String()):
		res.outcome, res.msg = "panic", strings.TrimSuffix(gnPanicRe.FindStringSubmatch(eb.String())[1], " [recovered]")
	case code == 1:
		res.outcome, res.msg = "fail", truncateStr(eb.String(), 600)
	default:
		res.outcome, res.msg = "bad", fmt.Sprintf("gennames exited with status %d: %s", code, truncateStr(eb.String(), 600))
	}
	return res
}

// parseNamePairs reads the entries of `var <name> = map[string]string{...}` in file order
// (ParseNameTable checks the shape and rejects repeated keys; the order is read here).
func parseNamePairs(src, pkg, name string) ([][2]string, error) {
	m, err := ParseNameTable(src, name)
	if err != nil {
		return nil, err
	}
	f, err := parser.ParseFile(token.NewFileSet(), "names.go", src, 0)
	if err != nil {
		return nil, err
	}
	if f.Name.Name != pkg {
		return nil, fmt.Errorf("the file declares package %s, asked for %s", f.Name.Name, pkg)
	}
	var out [][2]string
	ast.Inspect(f, func(n ast.Node) bool {
		vs, ok := n.(*ast.ValueSpec)
		if !ok || len(vs.Names) != 1 || vs.Names[0].Name != name || len(vs.Values) != 1 {
			return true
		}
		lit, ok := vs.Values[0].(*ast.CompositeLit)
		if !ok {
			return true
		}
		if mt, ok := lit.Type.(*ast.MapType); !ok || fmt.Sprint(mt.Key) != "string" || fmt.Sprint(mt.Value) != "string" {
			err = fmt.Errorf("var %s is not a map[string]string literal", name)
			return false
		}
		for _, e := range lit.Elts {
			kv := e.(*ast.KeyValueExpr)
			k, _ := strconv.Unquote(kv.Key.(*ast.BasicLit).Value)
			v, _ := strconv.Unquote(kv.Value.(*ast.BasicLit).Value)
			out = append(out, [2]string{k, v})
		}
		return false
	})
	if err != nil {
		return nil, err
	}
	if len(out) != len(m) {
		return nil, fmt.Errorf("var %s: %d entries read in order, %d by ParseNameTable", name, len(out), len(m))
	}
	return out, nil
}

func gnPairsSexp(ps [][2]string) string {
	var b strings.Builder
	for i, p := range ps {
		if i > 0 {
			b.WriteByte(' ')
		}
		b.WriteString("(" + term.X(p[0]) + " " + term.X(p[1]) + ")")
	}
	return b.String()
}

// gnObs: the four observations of one run, in the model's syntax (coq/Model/GennamesExec.v).
func gnObs(r gnResult) []hist.Obs {
	if r.outcome == "bad" {
		bad := hist.Obs{Kind: "bad", Msg: r.msg}
		return []hist.Obs{bad, bad, bad, bad}
	}
	head := r.outcome
	if r.outcome == "panic" {
		head = "panic " + term.X(r.msg)
	}
	sorted := append([][2]string{}, r.pairs...)
	sort.Slice(sorted, func(i, j int) bool { return sorted[i][0] < sorted[j][0] })
	return []hist.Obs{
		hist.Ext("gn-outcome", head),
		hist.Ext("gn-table", gnPairsSexp(sorted)),
		hist.Ext("gn-order", gnPairsSexp(r.pairs)),
		hist.Ext("gn-file", term.X(r.file)),
	}
}

// gnStubCase wraps one listing into a Case: a `(gennames)` line for the model, whose four
// elements each deliver one of the four observations of the single run of the real tool.
func gnStubCase(g gnCase, name string, tags ...string) *Case {
	var once sync.Once
	var res gnResult
	var obs []hist.Obs
	run := func(i int) func() hist.Obs {
		return func() hist.Obs {
			once.Do(func() { res = runGennamesStub(g); obs = gnObs(res) })
			return obs[i]
		}
	}
	b2 := func(b bool) string {
		if b {
			return "1"
		}
		return "0"
	}
	fl := "all"
	if g.Filter != "" {
		fl = term.X(g.Filter)
	}
	listing := "(out " + term.X(g.Out) + ")"
	if g.Fail {
		listing = "(fail)"
	}
	h := hist.History{
		{Kind: "ext", A: "(gennames)", Run: run(0)},
		{Kind: "ext", A: "(opts " + b2(g.Standard) + " " + b2(g.Novendor) + " " + fl + ")", Run: run(1)},
		{Kind: "ext", A: "(names " + term.X(g.Pkg) + " " + term.X(g.Name) + ")", Run: run(2)},
		{Kind: "ext", A: listing, Run: run(3)},
	}
	ref := gnReference(g)
	c := &Case{Name: name, Hist: h, Stream: "gennames-stub", Tags: append(append([]string{}, tags...), gnTags(g, ref)...),
		Meta: map[string]interface{}{"gn": g, "gnres": func() gnResult { run(0)(); return res }}}
	// NonTrivial (computed from the listing by the oracle's own reading of it): the tool has
	// something to keep AND something to drop - at least one line must land in the table and
	// at least one line must not (main, wrong -standard class, vendored under -novendor,
	// filtered, or beaten by an earlier line for the same path).
	c.NonTrivial = !g.Fail && !ref.short && len(ref.table) > 0 && ref.dropped > 0
	return c
}

// ---- the oracle's own reading of a listing (Go standard library only; no model) -----------

type gnLine struct {
	fields   []string
	selected bool   // the -standard class matches
	eligible bool   // selected, >= 3 fields, not main, not vendored under -novendor, passes the filter
	path     string // after vendor stripping
	name     string
}

type gnRef struct {
	lines   []gnLine
	short   bool              // a selected line has fewer than 3 fields (the tool indexes past the end)
	table   map[string]string // what must be printed if the tool survives
	dropped int               // lines that must not add an entry
}

func gnUnvendor(p string) (string, bool) {
	if i := strings.LastIndex(p, "/vendor/"); i >= 0 {
		return p[i+len("/vendor/"):], true
	}
	if strings.HasPrefix(p, "vendor/") {
		return p[len("vendor/"):], true
	}
	return p, false
}

func gnReference(g gnCase) gnRef {
	ref := gnRef{table: map[string]string{}}
	nonblank := 0
	for _, l := range strings.Split(strings.TrimSpace(g.Out), "\n") {
		f := strings.Split(l, " ")
		gl := gnLine{fields: f, selected: (f[0] == "true") == g.Standard}
		if gl.selected && len(f) < 3 {
			ref.short = true
		}
		if len(f) >= 3 {
			p, vend := gnUnvendor(f[1])
			gl.path, gl.name = p, f[2]
			gl.eligible = gl.selected && f[2] != "main" && !(g.Novendor && vend) && (g.Filter == "" || strings.Contains(f[1], g.Filter))
		}
		if gl.eligible && ref.table[gl.path] == "" {
			ref.table[gl.path] = gl.name // first non-empty name wins; an empty name is kept until then
		}
		if l != "" {
			nonblank++
		}
		ref.lines = append(ref.lines, gl)
	}
	ref.dropped = nonblank - len(ref.table)
	return ref
}

func gnTags(g gnCase, ref gnRef) []string {
	t := map[string]bool{}
	t["standard="+onoff(g.Standard)] = true
	t["novendor="+onoff(g.Novendor)] = true
	if g.Filter != "" {
		t["filter=literal"] = true
	}
	n := len(ref.lines)
	switch {
	case g.Fail:
		t["golist=fails"] = true
	case strings.TrimSpace(g.Out) == "":
		t["lines=0"] = true
	case n == 1:
		t["lines=1"] = true
	case n <= 20:
		t["lines=2-20"] = true
	case n < 1000:
		t["lines=21-999"] = true
	default:
		t["lines>=1000"] = true
	}
	if ref.short {
		t["shape=selected-line-too-short"] = true
	}
	seen := map[string]string{}
	var paths []string
	for _, l := range ref.lines {
		f := l.fields
		if len(f) > 3 {
			t["shape=extra-fields"] = true
		}
		if len(f) < 3 && !(len(f) == 1 && f[0] == "") {
			t["shape=missing-fields"] = true
		}
		if len(f) == 1 && f[0] == "" {
			t["shape=empty-line"] = true
		}
		if !l.selected {
			t["line=other-standard-class"] = true
		}
		if len(f) >= 3 {
			if f[2] == "main" {
				t["line=main"] = true
			}
			if f[2] == "" {
				t["line=empty-name"] = true
			}
			if strings.HasSuffix(f[len(f)-1], "\r") {
				t["line=crlf"] = true
			}
			if f[1] == "" {
				t["shape=double-space"] = true
			}
			if _, v := gnUnvendor(f[1]); v {
				t["path=vendored"] = true
				if strings.HasPrefix(f[1], "cmd/vendor/") {
					t["path=cmd-vendored"] = true
				}
				if strings.Count("/"+f[1], "/vendor/") > 1 {
					t["path=nested-vendor"] = true
				}
			}
			if strings.Contains("/"+f[1]+"/", "/internal/") {
				t["path=internal"] = true
			}
			if strconv.Quote(f[1]) != `"`+f[1]+`"` {
				t["path=needs-escaping"] = true
			}
		}
		if l.eligible {
			if prev, ok := seen[l.path]; ok {
				t["dup=same-path"] = true
				if prev != l.name {
					t["dup=different-names"] = true
				}
			} else {
				seen[l.path] = l.name
				paths = append(paths, l.path)
			}
		}
	}
	if !sort.StringsAreSorted(paths) {
		t["input=unsorted"] = true
	}
	qs := append([]string{}, paths...)
	sort.Strings(qs)
	if !sort.SliceIsSorted(qs, func(i, j int) bool { return strconv.Quote(qs[i]) < strconv.Quote(qs[j]) }) {
		t["order=quoted-differs-from-raw"] = true
	}
	if s := g.Out; s != strings.TrimSpace(s) && strings.TrimSpace(s) != strings.Trim(s, " \t\r\n") {
		t["trim=unicode-space"] = true
	}
	switch {
	case g.Fail:
		t["expect=fail"] = true
	case ref.short:
		t["expect=panic"] = true
	case len(ref.table) == 0:
		t["expect=empty-table"] = true
	default:
		t["expect=table"] = true
	}
	var out []string
	for k := range t {
		out = append(out, k)
	}
	sort.Strings(out)
	return out
}

// GennamesStubOracle decides, on what the real tool did with the listing of g, what C18 asks
// of the tool: the table it prints speaks only of what was listed.
func GennamesStubOracle(g gnCase, r gnResult) string {
	ref := gnReference(g)
	switch r.outcome {
	case "bad":
		return "the run of gennames cannot be read: " + r.msg
	case "fail":
		if g.Fail {
			return ""
		}
		return "gennames gave up although `go list` succeeded: " + r.msg
	case "panic":
		if ref.short && !g.Fail {
			// known finding (reported, not a wrong name): a selected line with fewer than three
			// fields makes getPackages index past the end of parts; nothing is written
			return ""
		}
		return "gennames panicked on a listing whose selected lines all have three fields: " + r.msg
	case "written":
	default:
		return "unknown outcome " + r.outcome
	}
	if g.Fail {
		return "gennames wrote a table although `go list` failed"
	}
	// how the tool asked for the listing (the three fields the line format relies on)
	if len(r.args) != 5 || r.args[0] != "list" || r.args[1] != "-e" || r.args[2] != "-f" || r.args[3] != "{{ .Standard }} {{ .ImportPath }} {{ .Name }}" || r.args[4] != "verif/stub/..." {
		return fmt.Sprintf("gennames did not ask for `Standard ImportPath Name` lines of the given -path: go %q", r.args)
	}
	got := map[string]string{}
	for _, p := range r.pairs {
		got[p[0]] = p[1]
	}
	// 1. nothing invented: every entry is witnessed by a line of the listing of the right
	// class whose third field is the entry's name and whose second field is the entry's path,
	// possibly behind a vendor directory
	for _, p := range r.pairs {
		ok := false
		var why []string
		for _, l := range ref.lines {
			if len(l.fields) < 3 || l.path != p[0] {
				continue
			}
			switch {
			case l.name != p[1]:
				why = append(why, fmt.Sprintf("line %q names it %q", strings.Join(l.fields, " "), l.name))
			case !l.selected:
				why = append(why, fmt.Sprintf("line %q is of the other -standard class", strings.Join(l.fields, " ")))
			case l.name == "main":
				why = append(why, fmt.Sprintf("line %q is a main package", strings.Join(l.fields, " ")))
			case !l.eligible:
				why = append(why, fmt.Sprintf("line %q is excluded by -novendor / -filter", strings.Join(l.fields, " ")))
			default:
				ok = true
			}
		}
		if !ok {
			if len(why) == 0 {
				return fmt.Sprintf("entry %q: %q is not the path (or vendored path) of any line of the listing", p[0], p[1])
			}
			return fmt.Sprintf("entry %q: %q is not what the listing says: %s", p[0], p[1], truncateStr(strings.Join(why, "; "), 600))
		}
		if p[1] == "main" {
			return fmt.Sprintf("entry %q: %q: a main package is listed", p[0], p[1])
		}
	}
	// 2. every eligible line is represented, by the first non-empty name given for its path
	for path, name := range ref.table {
		g, ok := got[path]
		if !ok {
			return fmt.Sprintf("the listing has an eligible line for %q (name %q) but the table has no entry for it", path, name)
		}
		if g != name {
			return fmt.Sprintf("entry %q: %q, but the first line of the listing that names this path says %q", path, g, name)
		}
	}
	if len(got) != len(ref.table) {
		return fmt.Sprintf("the table has %d entries, the listing accounts for %d", len(got), len(ref.table))
	}
	// 3. determinism of the print: the entries are in increasing order of their quoted keys
	if !sort.SliceIsSorted(r.pairs, func(i, j int) bool { return strconv.Quote(r.pairs[i][0]) < strconv.Quote(r.pairs[j][0]) }) {
		return "the entries of the printed table are not sorted by their quoted paths"
	}
	// 4. where it ran go list
	if !g.Standard && r.dir != "" && r.gopath != "" {
		want, _ := filepath.EvalSymlinks(filepath.Join(r.gopath, "src"))
		have, _ := filepath.EvalSymlinks(r.dir)
		if want != have {
			return fmt.Sprintf("go list ran in %s, not in GOPATH/src (%s)", have, want)
		}
	}
	return ""
}

// GennamesStubCompare: the model's four observations against the real run's; the model's
// file is the text handed to go/format, so it is formatted here before it is compared.
func GennamesStubCompare(exp, got []hist.Obs) string {
	if len(exp) != 4 || len(got) != 4 {
		return fmt.Sprintf("observation count differs: model %d, implementation %d (expected 4 and 4)", len(exp), len(got))
	}
	for i := 0; i < 3; i++ {
		if got[i].Kind == "bad" {
			return "implementation: " + got[i].Msg
		}
		if !hist.SameObs(exp[i], got[i]) {
			return fmt.Sprintf("observation %d differs:\n  model: %s\n  impl:  %s", i, truncateStr(exp[i].String(), 1500), truncateStr(got[i].String(), 1500))
		}
	}
	if exp[3].Kind != "gn-file" || got[3].Kind != "gn-file" {
		return fmt.Sprintf("observation 3 differs:\n  model: %s\n  impl:  %s", truncateStr(exp[3].String(), 800), truncateStr(got[3].String(), 800))
	}
	unx := func(s string) (string, bool) {
		if !strings.HasPrefix(s, "x") {
			return "", false
		}
		b, err := hex.DecodeString(s[1:])
		return string(b), err == nil
	}
	raw, ok1 := unx(exp[3].Out)
	file, ok2 := unx(got[3].Out)
	if !ok1 || !ok2 {
		return "gn-file observation is not a hex atom"
	}
	if exp[0].Out != "written" {
		if raw != "" || file != "" {
			return "a file although the outcome is " + exp[0].Out
		}
		return ""
	}
	fm, err := format.Source([]byte(raw))
	if err != nil {
		return fmt.Sprintf("the model's file does not format (%v), the tool wrote one:\n%s", err, truncateStr(raw, 800))
	}
	if string(fm) != file {
		return fmt.Sprintf("the written file differs:\n  model (formatted): %q\n  impl:              %q", truncateStr(string(fm), 1500), truncateStr(file, 1500))
	}
	return ""
}

func c18StubCompare(c *Case, exp, got []hist.Obs) string { return GennamesStubCompare(exp, got) }

func c18StubOracle(c *Case, got []hist.Obs) string {
	g, _ := c.Meta["gn"].(gnCase)
	res, ok := c.Meta["gnres"].(func() gnResult)
	if !ok {
		return "harness: the case carries no run"
	}
	return GennamesStubOracle(g, res())
}

// ---- generator ------------------------------------------------------------------------------

var gnPaths = []string{
	"fmt", "net/http", "archive/tar", "math/rand", "crypto/rand", "text/template", "html/template",
	"crypto/internal/alias", "internal/abi", "net/http/internal/ascii", "internal",
	"vendor/golang.org/x/net/idna", "golang.org/x/net/idna", "cmd/vendor/golang.org/x/net/idna",
	"vendor/golang.org/x/crypto/chacha20", "cmd/vendor/golang.org/x/sys/unix", "golang.org/x/sys/unix",
	"cmd/go", "cmd/go/internal/load", "cmd/compile", "cmd/internal/obj",
	"github.com/foo/bar/vendor/github.com/baz/qux", "github.com/baz/qux", "a/vendor/b/vendor/c", "c", "b/vendor/c",
	"vendor/", "vendor", "x/vendor", "/vendor/", "a/vendor/", "/vendor/vendor/", "vendor/vendor/q", "q", "myvendor/q", "a/myvendor/q",
	"gopkg.in/yaml.v2", "github.com/dave/jennifer/jen", "example.com/u/rand", "example.com/cmd/tool",
	"héllo/wörld", "a\"b", "a#b", "a\\b", "a\tb", "a\x00b", "\xff\xfe/x", "a`b", "a b", " lead", "trail ",
	"A", "a", "B", "b", "-", "_", ".", "..", "a//b",
}

var gnNames = []string{"main", "main", "", "http", "rand", "idna", "yaml", "jen", "Main", "main_test", "mainx", "true", "false", "x", "päck", "a\"b", "\xff", "0", "_"}

var gnFlags = []string{"true", "true", "true", "false", "false", "True", "", "TRUE", "true\t", "1"}

func gnBase(p string) string {
	if i := strings.LastIndex(p, "/"); i >= 0 {
		return p[i+1:]
	}
	return p
}

func gnRandLine(r *rand.Rand, paths []string, allowShort bool) string {
	p := paths[r.Intn(len(paths))]
	n := gnBase(p)
	switch k := r.Intn(12); {
	case k < 3:
		n = gnNames[r.Intn(len(gnNames))]
	case k == 3 || (k < 9 && (strings.HasPrefix(p, "cmd/") || strings.Contains(p, "/cmd/")) && !strings.Contains(p, "/internal/") && !strings.Contains(p, "vendor/")):
		n = "main" // commands are main packages
	}
	fl := gnFlags[r.Intn(len(gnFlags))]
	switch k := r.Intn(40); {
	case k == 0:
		return fl + " " + p + " " + n + " extra"
	case k == 1:
		return fl + " " + p + " " + n + " "
	case k == 2:
		return fl + "  " + p + " " + n // double space: an empty path field
	case k == 3:
		return " " + fl + " " + p + " " + n // leading space: an empty first field
	case k == 4:
		return fl + "\t" + p + "\t" + n // tabs do not separate
	case k == 5:
		return fl + " " + p + " " // empty name
	case k == 6 && allowShort:
		return fl + " " + p
	case k == 7 && allowShort:
		return fl
	case k == 8 && allowShort:
		return "" // an empty line is a short line of the non-standard class
	case k == 9:
		return fl + " " + p + " with space " + n // a path with spaces: the second word becomes the name
	}
	return fl + " " + p + " " + n
}

var gnJunk = []string{"", "", "", "\n", "\n\n", " ", "\t", "\r\n", "\u00a0", "\u2003", "\u0085", "\u3000\n", "\u1680", "\u2028\u2029", "\u202f\u205f", "\xc2", "\xe2\x80", "\x00", "\v\f", "\u200b", "\ufeff"}

func gnRandCase(r *rand.Rand) gnCase {
	g := gnCase{Pkg: "names", Name: "Table"}
	switch r.Intn(4) {
	case 0:
		g.Standard, g.Novendor = true, true // the way jen/hints.go is produced
	case 1:
		g.Standard = true
	case 2:
		g.Novendor = true
	}
	if r.Intn(8) == 0 {
		g.Filter = []string{"/", "golang.org", "vendor", "a", "x/", "."}[r.Intn(6)]
	}
	if r.Intn(6) == 0 {
		g.Pkg, g.Name = []string{"main", "p", "jen"}[r.Intn(3)], []string{"PackageNames", "standardLibraryHints", "_x", "T1"}[r.Intn(4)]
	}
	// the pool of paths of this listing: small, so that paths repeat (with and without vendor prefixes)
	var paths []string
	for i, n := 0, 1+r.Intn(10); i < n; i++ {
		paths = append(paths, gnPaths[r.Intn(len(gnPaths))])
	}
	if r.Intn(3) == 0 { // a vendored copy of a path of the pool, to collide after stripping
		p := paths[r.Intn(len(paths))]
		paths = append(paths, []string{"vendor/", "cmd/vendor/", "x/y/vendor/"}[r.Intn(3)]+p)
	}
	nlines := 0
	switch k := r.Intn(20); {
	case k == 0:
		nlines = 0
	case k == 1:
		nlines = 1
	case k == 2:
		nlines = 1000 + r.Intn(50)
		for i := 0; i < 400; i++ {
			paths = append(paths, fmt.Sprintf("%s/p%d", gnPaths[r.Intn(len(gnPaths))], r.Intn(600)))
		}
	default:
		nlines = 2 + r.Intn(14)
	}
	allowShort := r.Intn(8) == 0
	var lines []string
	for i := 0; i < nlines; i++ {
		lines = append(lines, gnRandLine(r, paths, allowShort))
	}
	if r.Intn(2) == 0 { // what go list prints is sorted by path; half of the listings keep an arbitrary order
		sort.SliceStable(lines, func(i, j int) bool {
			a, b := strings.SplitN(lines[i], " ", 3), strings.SplitN(lines[j], " ", 3)
			if len(a) < 2 || len(b) < 2 {
				return len(a) < len(b)
			}
			return a[1] < b[1]
		})
	}
	sep := "\n"
	if r.Intn(10) == 0 {
		sep = "\r\n"
	}
	out := strings.Join(lines, sep)
	if nlines > 0 && r.Intn(4) != 0 {
		out += sep // go list ends its output with a newline
	}
	if r.Intn(5) == 0 {
		out = gnJunk[r.Intn(len(gnJunk))] + out + gnJunk[r.Intn(len(gnJunk))]
	}
	g.Out = out
	if r.Intn(40) == 0 {
		g.Fail = true
	}
	return g
}

// gnRegressions: fixed listings, one per rule of getPackages' loop.
func gnRegressions() []*Case {
	std := func(out string) gnCase { return gnCase{Standard: true, Pkg: "names", Name: "Table", Out: out} }
	stdnv := func(out string) gnCase { g := std(out); g.Novendor = true; return g }
	user := func(out string) gnCase { return gnCase{Pkg: "names", Name: "Table", Out: out} }
	mk := func(name string, g gnCase) *Case { return gnStubCase(g, "gennames-stub/"+name, "fixed") }
	return []*Case{
		mk("plain", stdnv("true archive/tar tar\ntrue fmt fmt\ntrue net/http http\n")),
		mk("main-and-nonstandard-skipped", stdnv("true cmd/go main\nfalse example.com/x x\ntrue fmt fmt\nfalse example.com/m main\n")),
		mk("novendor-drops-vendored", stdnv("true vendor/golang.org/x/net/idna idna\ntrue cmd/vendor/golang.org/x/sys/unix unix\ntrue fmt fmt\n")),
		mk("vendor-stripped-first-wins", std("true cmd/vendor/golang.org/x/net/idna first\ntrue vendor/golang.org/x/net/idna second\ntrue golang.org/x/net/idna third\n")),
		mk("vendor-stripped-first-wins-reversed", std("true golang.org/x/net/idna third\ntrue vendor/golang.org/x/net/idna second\ntrue cmd/vendor/golang.org/x/net/idna first\n")),
		mk("empty-name-does-not-block", user("false example.com/a \nfalse example.com/a a\nfalse example.com/a b\nfalse example.com/z z\n")),
		mk("empty-name-stays", user("false example.com/a \nfalse example.com/z z\n")),
		mk("nested-vendor", user("false a/vendor/b/vendor/c c1\nfalse b/vendor/c c2\nfalse c c3\nfalse x/vendor v\nfalse a/vendor/ e\n")),
		mk("user-listing-main-skipped", user("false example.com/cmd/tool main\nfalse example.com/lib lib\ntrue fmt fmt\n")),
		mk("filter-sees-vendored-path", gnCase{Filter: "vendor", Pkg: "names", Name: "Table", Out: "false a/vendor/b b\nfalse b other\nfalse c c\n"}),
		mk("empty-listing-standard", std("")),
		mk("empty-listing-user-panics", user("")),
		mk("last-line-empty-name-panics", user("false example.com/a a\nfalse example.com/broken \n")),
		mk("short-line-of-other-class-ignored", std("false\ntrue fmt fmt\nfalse x\n")),
		mk("crlf-keeps-carriage-returns", std("true cmd/go main\r\ntrue fmt fmt\r\ntrue net/http http\r\n")),
		mk("extra-fields-and-double-space", std("true fmt fmt extra\ntrue  os os\ntrue a b c d\n")),
		mk("quoted-order", user("false a\"b q\nfalse a#b h\nfalse a\\b s\nfalse a\tb t\n")),
		mk("unicode-space-trimmed", std("\u2003\u00a0 true fmt fmt\ntrue os os\u3000\n\u0085")),
		mk("go-list-fails", gnCase{Standard: true, Pkg: "names", Name: "Table", Out: "true fmt fmt\n", Fail: true}),
		mk("one-entry", std("true fmt fmt")),
		mk("other-package-and-variable", gnCase{Standard: true, Novendor: true, Pkg: "jen", Name: "standardLibraryHints", Out: "true fmt fmt\ntrue os os\n"}),
	}
}

// c18GennamesStub is the stream: the fixed listings and n random ones.
func c18GennamesStub(r *rand.Rand, t string) []*Case {
	out := gnRegressions()
	for i, n := 0, tier(t, 40, 2000); i < n; i++ {
		out = append(out, gnStubCase(gnRandCase(r), ""))
	}
	return out
}
