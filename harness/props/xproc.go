package props

import (
	"bufio"
	"bytes"
	"crypto/sha256"
	"encoding/hex"
	"fmt"
	"io"
	"os"
	"os/exec"
	"runtime/debug"
	"strconv"
	"strings"
	"sync"

	"verifharness/hist"
)

// Cross-process repetition (used by C07): the harness binary re-executes itself
// (`harness -child-exec <prop> <tier> <subseed>`, see harness/child.go).  The child
// regenerates the same cases from (prop, tier, subseed), runs every history once on the
// implementation and prints one line per case:
//
//	<key> <sha256 of the serialised history> <sha256 of the observations>
//
// The parent compares the observation digests with its own, case by case.  The history
// digest guards the machinery itself: if the child regenerated a different history the
// comparison is meaningless, and that is reported as a harness fault, not as a finding.

// ChildExe is the path of the harness binary; set by harness/child.go.  Empty (e.g. in
// `go test`): no child processes are started and the cross-process part is skipped.
var ChildExe string

// ChildRunner is implemented by properties that repeat their cases in child processes.
type ChildRunner interface {
	// ChildCases deterministically regenerates the cases (named ones included); every case
	// carries Meta["xkey"] (string, unique).
	ChildCases(tier string, sub int64) []*Case
}

// ExecFresh builds the history with fresh objects and runs it on the implementation.
func ExecFresh(h hist.History) (obs []hist.Obs) {
	defer func() {
		if r := recover(); r != nil {
			obs = append(obs, hist.Obs{Kind: "bad", Msg: fmt.Sprintf("harness panic: %v\n%s", r, debug.Stack())})
		}
	}()
	return hist.NewWorld().Exec(h)
}

// ObsText is the canonical text of a sequence of observations (bytes, error class, number
// of Write calls, import table).
func ObsText(obs []hist.Obs) string {
	var b strings.Builder
	for _, o := range obs {
		b.WriteString(o.String())
		b.WriteByte('\n')
	}
	return b.String()
}

func xprocSha(s string) string {
	h := sha256.Sum256([]byte(s))
	return hex.EncodeToString(h[:])
}

func xprocHistSum(h hist.History) (s string) {
	defer func() {
		if r := recover(); r != nil {
			s = "unserialisable"
		}
	}()
	return xprocSha(h.Sexp())
}

// ChildMain is the body of a child process. args = prop tier subseed.
func ChildMain(args []string, w io.Writer) int {
	if len(args) != 3 {
		fmt.Fprintln(os.Stderr, "child: usage: -child-exec <prop> <tier> <subseed>")
		return 2
	}
	p := Get(args[0])
	cr, ok := p.(ChildRunner)
	if !ok {
		fmt.Fprintln(os.Stderr, "child: property", args[0], "has no child mode")
		return 2
	}
	sub, err := strconv.ParseInt(args[2], 10, 64)
	if err != nil {
		fmt.Fprintln(os.Stderr, "child: bad subseed:", err)
		return 2
	}
	bw := bufio.NewWriter(w)
	for _, c := range cr.ChildCases(args[1], sub) {
		key, _ := c.Meta["xkey"].(string)
		txt := ObsText(ExecFresh(c.Hist))
		if c.Meta["xtext"] == true {
			// a fourth field: the observations themselves (hex); runChild skips such lines, the
			// properties that ask for them parse the output themselves (C09, c09_spell.go)
			fmt.Fprintf(bw, "%s %s %s %s\n", key, xprocHistSum(c.Hist), xprocSha(txt), hex.EncodeToString([]byte(txt)))
			continue
		}
		fmt.Fprintf(bw, "%s %s %s\n", key, xprocHistSum(c.Hist), xprocSha(txt))
	}
	fmt.Fprintln(bw, "end")
	if bw.Flush() != nil {
		return 2
	}
	return 0
}

// ChildResult is what one child reported: key -> (history digest, observation digest).
type ChildResult map[string][2]string

// Children are the child runs of one harness run.
type Children struct {
	done chan struct{}
	Res  []ChildResult
	Errs []error
}

// StartChildren launches n children concurrently (they only re-run the implementation; the
// parent keeps running meanwhile).
func StartChildren(n int, prop, tier string, sub int64) *Children {
	x := &Children{done: make(chan struct{}), Res: make([]ChildResult, n), Errs: make([]error, n)}
	var wg sync.WaitGroup
	for j := 0; j < n; j++ {
		wg.Add(1)
		go func(j int) {
			defer wg.Done()
			x.Res[j], x.Errs[j] = runChild(prop, tier, sub)
		}(j)
	}
	go func() { wg.Wait(); close(x.done) }()
	return x
}

// Wait blocks until every child has exited.
func (x *Children) Wait() { <-x.done }

func runChild(prop, tier string, sub int64) (ChildResult, error) {
	cmd := exec.Command(ChildExe, "-child-exec", prop, tier, strconv.FormatInt(sub, 10))
	var out bytes.Buffer
	cmd.Stdout = &out
	cmd.Stderr = os.Stderr
	if err := cmd.Run(); err != nil {
		return nil, fmt.Errorf("child process failed: %v", err)
	}
	res := ChildResult{}
	complete := false
	for _, l := range strings.Split(out.String(), "\n") {
		if l == "end" {
			complete = true
			continue
		}
		f := strings.Fields(l)
		if len(f) != 3 {
			continue
		}
		res[f[0]] = [2]string{f[1], f[2]}
	}
	if !complete {
		return nil, fmt.Errorf("child process output is incomplete (%d lines)", len(res))
	}
	return res, nil
}
