// Package modelproc runs the extracted Coq model (ocaml/model_driver) as co-processes:
// one line in, one line out.
package modelproc

import (
	"bufio"
	"fmt"
	"io"
	"os"
	"os/exec"
	"sync"
)

type worker struct {
	cmd *exec.Cmd
	in  io.WriteCloser
	out *bufio.Reader
}

type Pool struct {
	path    string
	workers chan *worker
	n       int
	mu      sync.Mutex
	Lines   int64
	Bytes   int64
}

func start(path string) (*worker, error) {
	// a large stack: the extracted list functions are not tail recursive
	cmd := exec.Command("/bin/sh", "-c", "ulimit -s unlimited 2>/dev/null || ulimit -s 1000000 2>/dev/null; exec "+path)
	cmd.Stderr = os.Stderr
	in, err := cmd.StdinPipe()
	if err != nil {
		return nil, err
	}
	out, err := cmd.StdoutPipe()
	if err != nil {
		return nil, err
	}
	if err := cmd.Start(); err != nil {
		return nil, err
	}
	return &worker{cmd: cmd, in: in, out: bufio.NewReaderSize(out, 1<<20)}, nil
}

func New(path string, n int) (*Pool, error) {
	p := &Pool{path: path, workers: make(chan *worker, n), n: n}
	for i := 0; i < n; i++ {
		w, err := start(path)
		if err != nil {
			return nil, err
		}
		p.workers <- w
	}
	return p, nil
}

// Run evaluates one line.
func (p *Pool) Run(line string) (string, error) {
	w := <-p.workers
	res, err := w.run(line)
	if err != nil {
		// restart the worker
		w.in.Close()
		w.cmd.Process.Kill()
		w.cmd.Wait()
		nw, serr := start(p.path)
		if serr != nil {
			return "", fmt.Errorf("model worker died (%v) and could not be restarted: %v", err, serr)
		}
		p.workers <- nw
		return "", err
	}
	p.workers <- w
	p.mu.Lock()
	p.Lines++
	p.Bytes += int64(len(line))
	p.mu.Unlock()
	return res, nil
}

func (w *worker) run(line string) (string, error) {
	if _, err := io.WriteString(w.in, line+"\n"); err != nil {
		return "", err
	}
	s, err := w.out.ReadString('\n')
	if err != nil {
		return "", err
	}
	return s[:len(s)-1], nil
}

// RunAll evaluates all lines in parallel, preserving order.
func (p *Pool) RunAll(lines []string) ([]string, []error) {
	out := make([]string, len(lines))
	errs := make([]error, len(lines))
	var wg sync.WaitGroup
	sem := make(chan struct{}, p.n)
	for i := range lines {
		wg.Add(1)
		sem <- struct{}{}
		go func(i int) {
			defer wg.Done()
			out[i], errs[i] = p.Run(lines[i])
			<-sem
		}(i)
	}
	wg.Wait()
	return out, errs
}

func (p *Pool) Close() {
	for i := 0; i < p.n; i++ {
		w := <-p.workers
		w.in.Close()
		w.cmd.Wait()
	}
}
