package rebuild

import (
	"bytes"
	"fmt"
	"go/ast"
	"go/constant"
	"go/printer"
	"go/token"
	"reflect"
	"sort"
	"strconv"
	"strings"
)

// Compare walks two parsed files in parallel and returns "" when they have the same
// syntax tree, else a description of the first difference with both positions and texts.
//
// Ignored: comments (Doc, Comment, Comments), positions, resolution results (Obj, Scope,
// Unresolved), GoVersion (it is derived from a //go:build comment), ParenExpr wrappers,
// the placement / grouping / order of import declarations (import specs are compared as
// the sorted list of (name, path)), empty statements that are elements of a statement list
// (gofmt deletes a lone ";"; the empty statement a label stands on is kept and compared,
// whether written `L: ;` or implied before "}"), and the
// difference between no result list and an empty one (`func f() ()`, which gofmt writes
// as `func f()`).
// Compared: everything else, node by node - node types, identifiers, operators, the
// presence of `...` in a call, of `=` in a type spec, of the parentheses of a declaration
// group, and literals by kind and by VALUE (go/constant; strings and struct tags after
// unquoting), so `0x10` equals `16` but `1` differs from `1.0`.
func Compare(fa *token.FileSet, a *ast.File, fb *token.FileSet, b *ast.File) string {
	c := &cmp{fa: fa, fb: fb}
	c.file(a, b)
	return c.diff
}

// CompareNodes compares two arbitrary nodes (used by tests).
func CompareNodes(fa *token.FileSet, a ast.Node, fb *token.FileSet, b ast.Node) string {
	c := &cmp{fa: fa, fb: fb}
	c.value("", reflect.ValueOf(a), reflect.ValueOf(b))
	return c.diff
}

type cmp struct {
	fa, fb *token.FileSet
	diff   string
	na, nb []ast.Node // enclosing nodes
}

type impKey struct{ name, path string }

func importsOf(f *ast.File) ([]impKey, []ast.Decl) {
	var out []impKey
	var rest []ast.Decl
	for _, d := range f.Decls {
		gd, ok := d.(*ast.GenDecl)
		if !ok || gd.Tok != token.IMPORT {
			rest = append(rest, d)
			continue
		}
		for _, sp := range gd.Specs {
			is := sp.(*ast.ImportSpec)
			k := impKey{}
			if is.Name != nil {
				k.name = is.Name.Name
			}
			p, err := strconv.Unquote(is.Path.Value)
			if err != nil {
				p = is.Path.Value
			}
			k.path = p
			out = append(out, k)
		}
	}
	sort.Slice(out, func(i, j int) bool {
		if out[i].path != out[j].path {
			return out[i].path < out[j].path
		}
		return out[i].name < out[j].name
	})
	return out, rest
}

func (c *cmp) file(a, b *ast.File) {
	if a.Name.Name != b.Name.Name {
		c.diff = fmt.Sprintf("package name differs: %q vs %q", a.Name.Name, b.Name.Name)
		return
	}
	ia, da := importsOf(a)
	ib, db := importsOf(b)
	show := func(l []impKey) string {
		var s []string
		for _, k := range l {
			s = append(s, strings.TrimSpace(k.name+" "+strconv.Quote(k.path)))
		}
		return "[" + strings.Join(s, "; ") + "]"
	}
	if len(ia) != len(ib) {
		c.diff = fmt.Sprintf("imports differ: %s vs %s", show(ia), show(ib))
		return
	}
	for i := range ia {
		if ia[i] != ib[i] {
			c.diff = fmt.Sprintf("imports differ at %q / %q: %s vs %s", strings.TrimSpace(ia[i].name+" "+ia[i].path), strings.TrimSpace(ib[i].name+" "+ib[i].path), show(ia), show(ib))
			return
		}
	}
	c.na, c.nb = []ast.Node{a}, []ast.Node{b}
	if len(da) != len(db) {
		c.diff = fmt.Sprintf("number of top-level declarations differs: %d vs %d", len(da), len(db))
		for i := 0; i < len(da) && i < len(db); i++ {
			if reflect.TypeOf(da[i]) != reflect.TypeOf(db[i]) || declName(da[i]) != declName(db[i]) {
				c.diff += fmt.Sprintf("; first unlike pair is declaration %d: %s at %s vs %s at %s", i, declName(da[i]), c.fa.Position(da[i].Pos()), declName(db[i]), c.fb.Position(db[i].Pos()))
				break
			}
		}
		return
	}
	for i := range da {
		if !c.value(fmt.Sprintf("Decls[%d]", i), reflect.ValueOf(da[i]), reflect.ValueOf(db[i])) {
			return
		}
	}
}

func declName(d ast.Decl) string {
	switch x := d.(type) {
	case *ast.FuncDecl:
		return "func " + x.Name.Name
	case *ast.GenDecl:
		s := x.Tok.String()
		for _, sp := range x.Specs {
			switch y := sp.(type) {
			case *ast.ValueSpec:
				if len(y.Names) > 0 {
					return s + " " + y.Names[0].Name
				}
			case *ast.TypeSpec:
				return s + " " + y.Name.Name
			}
		}
		return s
	}
	return fmt.Sprintf("%T", d)
}

func text(fs *token.FileSet, n ast.Node) string {
	if n == nil || reflect.ValueOf(n).IsNil() {
		return "<nil>"
	}
	if _, ok := n.(*ast.File); ok {
		return "<file>"
	}
	var b bytes.Buffer
	if err := printer.Fprint(&b, fs, n); err != nil {
		return fmt.Sprintf("<%T>", n)
	}
	s := strings.Join(strings.Fields(b.String()), " ")
	if len(s) > 160 {
		s = s[:160] + "..."
	}
	return s
}

func (c *cmp) fail(path, format string, args ...interface{}) bool {
	if c.diff != "" {
		return false
	}
	where := ""
	if len(c.na) > 0 && len(c.nb) > 0 {
		a, b := c.na[len(c.na)-1], c.nb[len(c.nb)-1]
		where = fmt.Sprintf("\n  original %s: %s\n  output   %s: %s", c.fa.Position(a.Pos()), text(c.fa, a), c.fb.Position(b.Pos()), text(c.fb, b))
	}
	c.diff = fmt.Sprintf("%s: %s%s", path, fmt.Sprintf(format, args...), where)
	return false
}

func stripParens(v reflect.Value) reflect.Value {
	for v.IsValid() && v.Kind() == reflect.Ptr && !v.IsNil() {
		p, ok := v.Interface().(*ast.ParenExpr)
		if !ok {
			break
		}
		v = reflect.ValueOf(p.X)
	}
	return v
}

// dropEmpty removes the empty statements of a statement list: gofmt deletes a lone ";"
// (an empty statement that is the body of a label is not an element of the list and stays).
func dropEmpty(list []ast.Stmt) []ast.Stmt {
	var out []ast.Stmt
	for _, s := range list {
		if _, ok := s.(*ast.EmptyStmt); !ok {
			out = append(out, s)
		}
	}
	return out
}

var (
	posType     = reflect.TypeOf(token.NoPos)
	stmtListTyp = reflect.TypeOf([]ast.Stmt(nil))
	tokenType   = reflect.TypeOf(token.ILLEGAL)
)

// positions whose VALIDITY is syntax
var posMatters = map[string]bool{"GenDecl.Lparen": true, "CallExpr.Ellipsis": true, "TypeSpec.Assign": true}

func (c *cmp) stmts(path string, la, lb []ast.Stmt) bool {
	fa, fb := dropEmpty(la), dropEmpty(lb)
	for i := 0; i < len(fa) && i < len(fb); i++ {
		if !c.value(fmt.Sprintf("%s[%d]", path, i), reflect.ValueOf(fa[i]), reflect.ValueOf(fb[i])) {
			return false
		}
	}
	if len(fa) != len(fb) {
		// show the first statement that has no partner
		if len(fa) > len(fb) {
			n := fa[len(fb)]
			return c.fail(path, "statement list has %d vs %d entries; the original continues at %s with: %s", len(fa), len(fb), c.fa.Position(n.Pos()), text(c.fa, n))
		}
		n := fb[len(fa)]
		return c.fail(path, "statement list has %d vs %d entries; the output continues at %s with: %s", len(fa), len(fb), c.fb.Position(n.Pos()), text(c.fb, n))
	}
	return true
}

func isNilish(v reflect.Value) bool {
	if !v.IsValid() {
		return true
	}
	switch v.Kind() {
	case reflect.Ptr, reflect.Interface, reflect.Slice, reflect.Map:
		return v.IsNil()
	}
	return false
}

func (c *cmp) basicLit(path string, a, b *ast.BasicLit) bool {
	if a.Kind != b.Kind {
		return c.fail(path, "literal kind differs: %s %s vs %s %s", a.Kind, a.Value, b.Kind, b.Value)
	}
	if a.Value == b.Value {
		return true
	}
	va := constant.MakeFromLiteral(a.Value, a.Kind, 0)
	vb := constant.MakeFromLiteral(b.Value, b.Kind, 0)
	if va.Kind() == constant.Unknown || vb.Kind() == constant.Unknown {
		return c.fail(path, "literal cannot be evaluated: %s vs %s", a.Value, b.Value)
	}
	if !constant.Compare(va, token.EQL, vb) {
		return c.fail(path, "literal value differs: %s vs %s", a.Value, b.Value)
	}
	return true
}

func (c *cmp) value(path string, a, b reflect.Value) bool {
	if c.diff != "" {
		return false
	}
	// unwrap interfaces, drop ParenExpr wrappers
	for a.IsValid() && a.Kind() == reflect.Interface && !a.IsNil() {
		a = a.Elem()
	}
	for b.IsValid() && b.Kind() == reflect.Interface && !b.IsNil() {
		b = b.Elem()
	}
	a, b = stripParens(a), stripParens(b)
	for a.IsValid() && a.Kind() == reflect.Interface && !a.IsNil() {
		a = a.Elem()
	}
	for b.IsValid() && b.Kind() == reflect.Interface && !b.IsNil() {
		b = b.Elem()
	}
	an, bn := isNilish(a), isNilish(b)
	if an || bn {
		// nil field list == empty field list
		if fl, ok := valueAs(a).(*ast.FieldList); ok && bn && (fl == nil || len(fl.List) == 0) {
			return true
		}
		if fl, ok := valueAs(b).(*ast.FieldList); ok && an && (fl == nil || len(fl.List) == 0) {
			return true
		}
		if an && bn {
			return true
		}
		if !an {
			if n, ok := valueAs(a).(ast.Node); ok {
				return c.fail(path, "present only in the original (%T at %s): %s", n, c.fa.Position(n.Pos()), text(c.fa, n))
			}
			if a.Kind() == reflect.Slice && a.Len() == 0 {
				return true
			}
		} else {
			if n, ok := valueAs(b).(ast.Node); ok {
				return c.fail(path, "present only in the output (%T at %s): %s", n, c.fb.Position(n.Pos()), text(c.fb, n))
			}
			if b.Kind() == reflect.Slice && b.Len() == 0 {
				return true
			}
		}
		return c.fail(path, "present on one side only")
	}
	if a.Type() != b.Type() {
		na, _ := valueAs(a).(ast.Node)
		nb, _ := valueAs(b).(ast.Node)
		if na != nil && nb != nil {
			c.na, c.nb = append(c.na, na), append(c.nb, nb)
		}
		return c.fail(path, "node type differs: %s vs %s", a.Type(), b.Type())
	}
	switch a.Kind() {
	case reflect.Ptr:
		switch x := a.Interface().(type) {
		case *ast.CommentGroup, *ast.Comment, *ast.Object, *ast.Scope:
			return true
		case *ast.Ident:
			y := b.Interface().(*ast.Ident)
			if x.Name != y.Name {
				c.na, c.nb = append(c.na, x), append(c.nb, y)
				return c.fail(path, "identifier differs: %s vs %s", x.Name, y.Name)
			}
			return true
		case *ast.BasicLit:
			y := b.Interface().(*ast.BasicLit)
			c.na, c.nb = append(c.na, x), append(c.nb, y)
			ok := c.basicLit(path, x, y)
			c.na, c.nb = c.na[:len(c.na)-1], c.nb[:len(c.nb)-1]
			return ok
		case *ast.EmptyStmt:
			return true // `L: ;` and `L:` before "}" are both a label on an empty statement
		case *ast.FieldList:
			y := b.Interface().(*ast.FieldList)
			return c.value(path+".List", reflect.ValueOf(x.List), reflect.ValueOf(y.List))
		}
		pushed := false
		if na, ok := a.Interface().(ast.Node); ok {
			if nb, ok := b.Interface().(ast.Node); ok {
				c.na, c.nb = append(c.na, na), append(c.nb, nb)
				pushed = true
			}
		}
		ok := c.value(path, a.Elem(), b.Elem())
		if pushed && ok {
			c.na, c.nb = c.na[:len(c.na)-1], c.nb[:len(c.nb)-1]
		}
		return ok
	case reflect.Struct:
		tn := a.Type().Name()
		for i := 0; i < a.NumField(); i++ {
			f := a.Type().Field(i)
			switch f.Name {
			case "Doc", "Comment", "Comments", "Obj", "Scope", "Unresolved", "GoVersion", "Imports":
				continue
			}
			p := path + "." + tn + "." + f.Name
			if f.Type == posType {
				if posMatters[tn+"."+f.Name] {
					va, vb := token.Pos(a.Field(i).Int()).IsValid(), token.Pos(b.Field(i).Int()).IsValid()
					if va != vb {
						return c.fail(p, "present on one side only (%v vs %v)", va, vb)
					}
				}
				continue
			}
			if f.Type == stmtListTyp {
				if !c.stmts(p, a.Field(i).Interface().([]ast.Stmt), b.Field(i).Interface().([]ast.Stmt)) {
					return false
				}
				continue
			}
			if !c.value(p, a.Field(i), b.Field(i)) {
				return false
			}
		}
		return true
	case reflect.Slice:
		if a.Len() != b.Len() {
			return c.fail(path, "list length differs: %d vs %d", a.Len(), b.Len())
		}
		for i := 0; i < a.Len(); i++ {
			if !c.value(fmt.Sprintf("%s[%d]", path, i), a.Index(i), b.Index(i)) {
				return false
			}
		}
		return true
	case reflect.String:
		if a.String() != b.String() {
			return c.fail(path, "%q vs %q", a.String(), b.String())
		}
		return true
	case reflect.Bool:
		if a.Bool() != b.Bool() {
			return c.fail(path, "%v vs %v", a.Bool(), b.Bool())
		}
		return true
	case reflect.Int, reflect.Int8, reflect.Int16, reflect.Int32, reflect.Int64:
		if a.Int() != b.Int() {
			if a.Type() == tokenType {
				return c.fail(path, "token differs: %s vs %s", token.Token(a.Int()), token.Token(b.Int()))
			}
			return c.fail(path, "%d vs %d", a.Int(), b.Int())
		}
		return true
	}
	return c.fail(path, "cannot compare values of kind %s", a.Kind())
}

func valueAs(v reflect.Value) interface{} {
	if !v.IsValid() || !v.CanInterface() {
		return nil
	}
	return v.Interface()
}
