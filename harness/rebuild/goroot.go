package rebuild

import (
	"go/build"
	"go/parser"
	"go/token"
	"os"
	"path/filepath"
	"runtime"
	"strings"
	"sync"
)

var (
	pkgNameMu    sync.Mutex
	pkgNameCache = map[string]string{}
)

// SrcRoot is GOROOT/src of the installed toolchain (symlinks resolved).
func SrcRoot() string {
	src := filepath.Join(runtime.GOROOT(), "src")
	if r, err := filepath.EvalSymlinks(src); err == nil {
		src = r
	}
	return src
}

// PkgNameIn returns a resolver of declared package names for import paths below the given
// src directory: the package clause of <src>/<path>, <src>/vendor/<path> or
// <src>/cmd/vendor/<path> as go/build reads it (build constraints applied, test files and
// ignored files left out).  Ground truth from disk, independent of jennifer's hints table.
func PkgNameIn(src string) func(path string) (string, bool) {
	return func(path string) (string, bool) {
		key := src + "\x00" + path
		pkgNameMu.Lock()
		n, ok := pkgNameCache[key]
		pkgNameMu.Unlock()
		if ok {
			return n, n != ""
		}
		ctx := build.Default
		ctx.CgoEnabled = true // packages that consist of cgo files only still have a name
		for _, dir := range []string{filepath.Join(src, filepath.FromSlash(path)), filepath.Join(src, "vendor", filepath.FromSlash(path)), filepath.Join(src, "cmd", "vendor", filepath.FromSlash(path))} {
			bp, err := ctx.ImportDir(dir, 0)
			if bp != nil && bp.Name != "" {
				if _, multi := err.(*build.MultiplePackageError); err == nil || !multi {
					n = bp.Name
					break
				}
			}
		}
		if n == "" {
			// no file for this GOOS/GOARCH (internal/syscall/windows, ...): majority vote over
			// the package clauses of the non-test files
			for _, dir := range []string{filepath.Join(src, filepath.FromSlash(path)), filepath.Join(src, "vendor", filepath.FromSlash(path)), filepath.Join(src, "cmd", "vendor", filepath.FromSlash(path))} {
				if n = clauseVote(dir); n != "" {
					break
				}
			}
		}
		pkgNameMu.Lock()
		pkgNameCache[key] = n
		pkgNameMu.Unlock()
		return n, n != ""
	}
}

// GorootPkgName resolves import paths of the installed toolchain's tree.
func GorootPkgName(path string) (string, bool) { return PkgNameIn(SrcRoot())(path) }

func clauseVote(dir string) string {
	ents, err := os.ReadDir(dir)
	if err != nil {
		return ""
	}
	votes := map[string]int{}
	for _, e := range ents {
		nm := e.Name()
		if e.IsDir() || !strings.HasSuffix(nm, ".go") || strings.HasSuffix(nm, "_test.go") || strings.HasPrefix(nm, "_") || strings.HasPrefix(nm, ".") {
			continue
		}
		f, err := parser.ParseFile(token.NewFileSet(), filepath.Join(dir, nm), nil, parser.PackageClauseOnly)
		if err != nil || f.Name == nil {
			continue
		}
		votes[f.Name.Name]++
	}
	best, bestN := "", 0
	for n, c := range votes {
		if n == "main" && len(votes) > 1 {
			continue
		}
		if c > bestN || (c == bestN && n < best) {
			best, bestN = n, c
		}
	}
	return best
}
