package rebuild

import (
	"go/ast"
	"go/parser"
	"go/token"
	"io/fs"
	"math/rand"
	"os"
	"path/filepath"
	"sort"
	"strings"
	"testing"

	"verifharness/hist"
)

// roundTrip renders the history on the implementation and compares the re-parsed output
// with the original.
func roundTrip(t *testing.T, name, src string, r *rand.Rand, dir string, pkgName func(string) (string, bool)) (string, *Stats, error) {
	fset := token.NewFileSet()
	f, err := parser.ParseFile(fset, name, src, 0)
	if err != nil {
		return "", nil, err
	}
	h, st, err := FileOpts(fset, f, &Options{R: r, Dir: dir, PkgName: pkgName})
	if err != nil {
		return "", st, err
	}
	_ = h.Sexp() // must serialise
	obs := hist.NewWorld().Exec(h)
	if len(obs) != 1 || obs[0].Kind != "write" {
		return "render failed: " + obs[0].String()[:min(len(obs[0].String()), 1500)], st, nil
	}
	fset2 := token.NewFileSet()
	g, err := parser.ParseFile(fset2, "out.go", obs[0].Out, 0)
	if err != nil {
		return "output does not parse: " + err.Error(), st, nil
	}
	return Compare(fset, f, fset2, g), st, nil
}

func min(a, b int) int {
	if a < b {
		return a
	}
	return b
}

func TestSmall(t *testing.T) {
	src := `package p

import (
	"fmt"
	mr "math/rand"
	_ "unsafe"
)

type T[K comparable, V int | ~string] struct {
	a, b int ` + "`json:\"a\" xml:\"b\"`" + `
	*T2
	c    mr.Rand "x y"
}

const (
	A = iota
	B
	C = 0x10 + 1e3 + 'x' + 2i + 123456789012345678901234567890
)

var x, y = 1, "s"

func (t *T[K, V]) M(a, b int, c ...string) (n int, err error) {
L:
	for i := 0; i < 10; i++ {
		switch {
		case i == 1:
		case i == 2, i == 3:
			fallthrough
		default:
			break L
		}
		if x := f(); x > 0 {
			continue
		} else if x < 0 {
			goto L
		} else {
			return
		}
	}
	for {
	}
	for ; ; {
	}
	for x < 1 {
	}
	for k, v := range m {
		_ = k + v
	}
	for range ch {
	}
	select {
	case v := <-ch:
		_ = v
	case ch <- 1:
	default:
	}
	switch y := z.(type) {
	case int, string:
		_ = y
	}
	s := a[1:2:3]
	s = a[:]
	s = a[1:]
	go func() { defer fmt.Println("x", s...) }()
	p := &T2{A: 1, B: []int{1, 2}, C: map[string]int{"a": 1}}
	_ = (*int)(nil)
	x.y.z++
	var q chan<- <-chan int
	var w interface {
		M()
		~int | string
		fmt.Stringer
	}
	return len(s), nil
M:
}
`
	for seed := int64(0); seed < 50; seed++ {
		var r *rand.Rand
		if seed > 0 {
			r = rand.New(rand.NewSource(seed))
		}
		d, _, err := roundTrip(t, "x.go", src, r, "", nil)
		if err != nil {
			t.Fatal(err)
		}
		if d != "" {
			t.Fatalf("seed %d: %s", seed, d)
		}
	}
}

// TestGoroot runs the translation on a sample of GOROOT/src (all of it with REBUILD_ALL=1).
func TestGoroot(t *testing.T) {
	if testing.Short() {
		t.Skip()
	}
	src := SrcRoot()
	if e := os.Getenv("REBUILD_ROOT"); e != "" {
		src = e // another toolchain's src tree
	}
	pkgName := PkgNameIn(src)
	var files []string
	filepath.WalkDir(src, func(p string, d fs.DirEntry, err error) error {
		if err != nil {
			return nil
		}
		if d.IsDir() {
			if d.Name() == "testdata" {
				return filepath.SkipDir
			}
			return nil
		}
		if strings.HasSuffix(p, ".go") {
			files = append(files, p)
		}
		return nil
	})
	sort.Strings(files)
	r := rand.New(rand.NewSource(7))
	if os.Getenv("REBUILD_ALL") == "" {
		r.Shuffle(len(files), func(i, j int) { files[i], files[j] = files[j], files[i] })
		files = files[:400]
	}
	skips := map[string]int{}
	feats := map[string]int{}
	bad := 0
	for _, p := range files {
		b, err := os.ReadFile(p)
		if err != nil {
			t.Fatal(err)
		}
		rel, _ := filepath.Rel(src, p)
		d, st, err := roundTrip(t, p, string(b), r, filepath.ToSlash(filepath.Dir(rel)), pkgName)
		if err != nil {
			if s, ok := err.(*Skip); ok {
				skips[s.Reason]++
				if s.Reason == SkipUnknownNode || s.Reason == SkipBadNode || s.Reason == SkipImportName || s.Reason == SkipImportUnused || s.Reason == SkipImportLocal || s.Reason == SkipImportTwice {
					t.Logf("%s: %v", rel, err)
				}
			} else {
				skips["parse-error"]++
			}
			continue
		}
		for k, v := range st.Feat {
			feats[k] += v
		}
		if d != "" {
			bad++
			if bad < 15 {
				t.Errorf("%s: %s", rel, d)
			}
		}
	}
	t.Logf("files %d, skipped %v, failures %d", len(files), skips, bad)
	var ks []string
	for k := range feats {
		ks = append(ks, k)
	}
	sort.Strings(ks)
	for _, k := range ks {
		t.Logf("  %-32s %d", k, feats[k])
	}
	_ = ast.Print
}

func parse2(t *testing.T, a, b string) string {
	fa, fb := token.NewFileSet(), token.NewFileSet()
	x, err := parser.ParseFile(fa, "a.go", a, parser.ParseComments)
	if err != nil {
		t.Fatal(err)
	}
	y, err := parser.ParseFile(fb, "b.go", b, 0)
	if err != nil {
		t.Fatal(err)
	}
	return Compare(fa, x, fb, y)
}

const cmpBase = `// doc
package p

import (
	"fmt"
	r "math/rand"
)

// F does things.
func F(a, b int) (int, error) {
	x := (a + b) * 0x10 // sixteen
	fmt.Println(x, "s\n", 'a', 1.5, 1e3, r.Int())
L:
	for i := range 10 {
		if i > 3 {
			break L
		}
	}
	f(a, b...)
	return x, nil
}

type T = struct{ A int ` + "`json:\"a\"`" + ` }

var (
	v = 1
)
`

func TestCompareAccepts(t *testing.T) {
	same := []string{
		cmpBase,
		strings.Replace(cmpBase, "(a + b) * 0x10", "((a) + b) * (16)", 1),                                                  // parentheses, literal spelling
		strings.Replace(cmpBase, `"s\n"`, "`s\n`", 1),                                                                      // raw string, same value
		strings.Replace(cmpBase, "'a'", `'\x61'`, 1),                                                                       // rune spelling
		strings.Replace(cmpBase, "1e3", "1000.0", 1),                                                                       // float spelling
		strings.Replace(cmpBase, "import (\n\t\"fmt\"\n\tr \"math/rand\"\n)", "import r \"math/rand\"\nimport \"fmt\"", 1), // import grouping and order
		strings.Replace(cmpBase, "(int, error) {", "(int, error) {\n;", 1),                                                 // explicit empty statement
		strings.Replace(cmpBase, "`json:\"a\"`", `"json:\"a\""`, 1),                                                        // tag spelling
		strings.Replace(cmpBase, "// sixteen", "", 1),
	}
	for i, s := range same {
		if d := parse2(t, cmpBase, s); d != "" {
			t.Errorf("variant %d rejected: %s", i, d)
		}
		if d := parse2(t, s, cmpBase); d != "" {
			t.Errorf("variant %d rejected (swapped): %s", i, d)
		}
	}
	if d := parse2(t, "package p\nfunc f() () {}", "package p\nfunc f() {}"); d != "" {
		t.Error(d)
	}
	if d := parse2(t, "package p\nfunc f() { L: ; }", "package p\nfunc f() { L: }"); d != "" {
		t.Error(d)
	}
	if d := parse2(t, "package p\nfunc f() { L: ; x() }", "package p\nfunc f() { L: x() }"); d == "" {
		t.Error("a label moved onto the next statement was accepted")
	}
}

func TestCompareRejects(t *testing.T) {
	bad := map[string]string{
		"changed operator":        strings.Replace(cmpBase, "(a + b) *", "(a - b) *", 1),
		"changed operator 2":      strings.Replace(cmpBase, "i > 3", "i >= 3", 1),
		"dropped statement":       strings.Replace(cmpBase, "\tf(a, b...)\n", "", 1),
		"dropped last statement":  strings.Replace(cmpBase, "\treturn x, nil\n", "", 1),
		"changed int literal":     strings.Replace(cmpBase, "0x10", "0x11", 1),
		"changed string literal":  strings.Replace(cmpBase, `"s\n"`, `"s\t"`, 1),
		"changed rune literal":    strings.Replace(cmpBase, "'a'", "'b'", 1),
		"changed float literal":   strings.Replace(cmpBase, "1.5", "1.25", 1),
		"int became float":        strings.Replace(cmpBase, "v = 1", "v = 1.0", 1),
		"renamed import":          strings.Replace(cmpBase, `r "math/rand"`, `rr "math/rand"`, 1),
		"alias dropped":           strings.Replace(strings.Replace(cmpBase, `r "math/rand"`, `"math/rand"`, 1), "r.Int()", "rand.Int()", 1),
		"import path changed":     strings.Replace(cmpBase, `"math/rand"`, `"crypto/rand"`, 1),
		"import dropped":          strings.Replace(cmpBase, "\t\"fmt\"\n", "", 1),
		"qualifier changed":       strings.Replace(cmpBase, "r.Int()", "fmt.Int()", 1),
		"package name":            strings.Replace(cmpBase, "package p", "package q", 1),
		"identifier":              strings.Replace(cmpBase, "x := (a", "y := (a", 1),
		"precedence":              strings.Replace(cmpBase, "(a + b) * 0x10", "a + b*0x10", 1),
		"variadic dropped":        strings.Replace(cmpBase, "b...)", "b)", 1),
		"label dropped":           strings.Replace(strings.Replace(cmpBase, "L:\n", "", 1), "break L", "break", 1),
		"label target":            strings.Replace(cmpBase, "break L", "break", 1),
		"alias became definition": strings.Replace(cmpBase, "type T = struct", "type T struct", 1),
		"tag changed":             strings.Replace(cmpBase, "`json:\"a\"`", "`json:\"b\"`", 1),
		"tag dropped":             strings.Replace(cmpBase, "`json:\"a\"`", "", 1),
		"group became single":     strings.Replace(cmpBase, "var (\n\tv = 1\n)", "var v = 1", 1),
		"param grouping":          strings.Replace(cmpBase, "a, b int", "a int, b int", 1),
		"result dropped":          strings.Replace(strings.Replace(cmpBase, "(int, error)", "int", 1), "return x, nil", "return x", 1),
		"declaration dropped":     strings.Replace(cmpBase, "var (\n\tv = 1\n)", "", 1),
		"range key":               strings.Replace(cmpBase, "for i := range 10", "for i = range 10", 1),
		"assign op":               strings.Replace(cmpBase, "x := (a", "x = (a", 1),
	}
	for name, s := range bad {
		if s == cmpBase {
			t.Fatalf("%s: mutation did not apply", name)
		}
		d := parse2(t, cmpBase, s)
		if d == "" {
			t.Errorf("%s: accepted", name)
		} else {
			t.Logf("%-24s %s", name, strings.SplitN(d, "\n", 2)[0])
		}
		if parse2(t, s, cmpBase) == "" {
			t.Errorf("%s: accepted (swapped)", name)
		}
	}
}
