// Package rebuild translates a parsed Go source file (go/ast) into a history of the op
// language whose terms use, for every Go construct, the DSL element jennifer's README
// documents for it (DESIGN.md Appendix D).  Rendering that history must give back a file
// with the same syntax tree; Compare (compare.go) decides that.
//
// The input file must have been parsed WITH object resolution (no
// parser.SkipObjectResolution): a selector x.Sel becomes Qual(path, Sel) exactly when x is
// an identifier the parser left unresolved and x is the local name of an import (imports
// live in the file scope, a package-level declaration of another file cannot shadow them).
package rebuild

import (
	"fmt"
	"go/ast"
	"go/constant"
	"go/scanner"
	"go/token"
	"math"
	"math/rand"
	"reflect"
	"sort"
	"strconv"
	"strings"

	"github.com/dave/jennifer/jen"

	"verifharness/hist"
	"verifharness/term"
)

// Skip is the error returned for a file the DSL cannot express (or this translator does
// not attempt): Reason is a short histogram key.
type Skip struct {
	Reason string
	Pos    token.Position
	Node   string
}

func (s *Skip) Error() string {
	return fmt.Sprintf("skipped (%s) at %s: %s", s.Reason, s.Pos, s.Node)
}

// Reasons a file is skipped for (the constructs the rebuilder cannot express).
const (
	SkipDotImport    = "dot-import"          // names cannot be attributed without type information
	SkipCgo          = "cgo"                 // import "C": preamble comments carry meaning
	SkipImportName   = "import-name-unknown" // declared name of an imported package not found on disk
	SkipImportTwice  = "import-path-twice"   // one path imported under two names: File has one entry per path
	SkipImportUnused = "import-unreferenced" // jennifer only writes imports that a Qual uses
	SkipBadNode      = "bad-node"            // ast.Bad* (cannot occur in a file that parsed)
	SkipUnknownNode  = "unknown-node"        // a node type of a newer go/ast
	SkipImportPlace  = "import-decl-in-body" // import declaration that is not a file-level GenDecl
	SkipImportLocal  = "imports-own-path"    // a Qual of the file's own path loses its qualifier
)

// Stats describes what one translation used (input distribution for the evidence).
type Stats struct {
	Decls    int            // top-level declarations translated (fadd operations)
	Nodes    int            // DSL leaves and groups emitted
	MaxDepth int            // deepest nesting of groups
	Feat     map[string]int // feature -> occurrences
}

// Options of one translation.
type Options struct {
	// R picks between equivalent DSL spellings; nil = always the first spelling.
	R *rand.Rand
	// Dir is the import path of the directory the file lives in; when set the file may be
	// opened with NewFilePathName(Dir, name) instead of NewFile(name).
	Dir string
	// PkgName gives the name declared by the package clause of an imported path; nil = GorootPkgName.
	PkgName func(path string) (string, bool)
}

type imp struct {
	path, local string
	used        bool
}

type tr struct {
	r       *rand.Rand
	fset    *token.FileSet
	imports map[string]*imp // by local name
	st      *Stats
	depth   int
}

// File translates f with default options (first spelling everywhere).
func File(fset *token.FileSet, f *ast.File) (hist.History, error) {
	h, _, err := FileOpts(fset, f, nil)
	return h, err
}

// FileOpts translates f: newfile | newfilepathname, one import hint per import spec, one
// fadd per top-level declaration, noformat false, render.
func FileOpts(fset *token.FileSet, f *ast.File, o *Options) (h hist.History, st *Stats, err error) {
	if o == nil {
		o = &Options{}
	}
	t := &tr{r: o.R, fset: fset, imports: map[string]*imp{}, st: &Stats{Feat: map[string]int{}}}
	defer func() {
		if r := recover(); r != nil {
			if s, ok := r.(*Skip); ok {
				h, st, err = nil, t.st, s
				return
			}
			panic(r)
		}
	}()
	pkgName := o.PkgName
	if pkgName == nil {
		pkgName = GorootPkgName
	}
	name := f.Name.Name
	local := ""
	if o.Dir != "" && !importsPath(f, o.Dir) && t.flip() {
		// (a file that imports the path of its own directory - an ignored `package main`
		// helper, an external test - is opened with NewFile: a Qual of the File's own path
		// is written without qualifier)
		local = o.Dir
		if strings.HasSuffix(name, "_test") {
			local += "_test" // an external test package is not the package of its directory
		}
		h = append(h, hist.Op{Kind: "newfilepathname", F: 0, A: local, B: name})
		t.feat("file:pathname")
	} else {
		h = append(h, hist.Op{Kind: "newfile", F: 0, A: name})
	}
	paths := map[string]bool{}
	for _, d := range f.Decls {
		gd, ok := d.(*ast.GenDecl)
		if !ok || gd.Tok != token.IMPORT {
			continue
		}
		for _, sp := range gd.Specs {
			is := sp.(*ast.ImportSpec)
			p, uerr := strconv.Unquote(is.Path.Value)
			if uerr != nil {
				t.skip(SkipBadNode, is, "import path "+is.Path.Value)
			}
			if p == "C" {
				t.skip(SkipCgo, is, `import "C"`)
			}
			if paths[p] {
				t.skip(SkipImportTwice, is, p)
			}
			paths[p] = true
			if local != "" && p == local {
				t.skip(SkipImportLocal, is, p)
			}
			switch {
			case is.Name == nil:
				n, ok := pkgName(p)
				if !ok {
					t.skip(SkipImportName, is, p)
				}
				if t.imports[n] != nil {
					t.skip(SkipImportTwice, is, "two imports named "+n)
				}
				t.imports[n] = &imp{path: p, local: n}
				h = append(h, hist.Op{Kind: "importname", F: 0, A: p, B: n})
				t.feat("import:name")
			case is.Name.Name == "_":
				h = append(h, hist.Op{Kind: "anon", F: 0, Strs: []string{p}})
				t.feat("import:anon")
			case is.Name.Name == ".":
				t.skip(SkipDotImport, is, p)
			default:
				n := is.Name.Name
				if t.imports[n] != nil {
					t.skip(SkipImportTwice, is, "two imports named "+n)
				}
				t.imports[n] = &imp{path: p, local: n}
				h = append(h, hist.Op{Kind: "importalias", F: 0, A: p, B: n})
				t.feat("import:alias")
			}
		}
	}
	for _, d := range f.Decls {
		if gd, ok := d.(*ast.GenDecl); ok && gd.Tok == token.IMPORT {
			continue
		}
		h = append(h, hist.Op{Kind: "fadd", F: 0, Code: term.S(t.decl(d)...)})
		t.st.Decls++
	}
	var unused []string
	for _, im := range t.imports {
		if !im.used {
			unused = append(unused, im.path)
		}
	}
	if len(unused) > 0 {
		sort.Strings(unused)
		t.skip(SkipImportUnused, f.Name, strings.Join(unused, " "))
	}
	h = append(h, hist.Op{Kind: "noformat", F: 0, Flag: false}, hist.Op{Kind: "render", F: 0})
	return h, t.st, nil
}

// ---- helpers ----

func importsPath(f *ast.File, path string) bool {
	for _, is := range f.Imports {
		if p, err := strconv.Unquote(is.Path.Value); err == nil && (p == path || p == path+"_test") {
			return true
		}
	}
	return false
}

func (t *tr) skip(reason string, n ast.Node, what string) {
	panic(&Skip{Reason: reason, Pos: t.fset.Position(n.Pos()), Node: what})
}

func (t *tr) feat(s string) { t.st.Feat[s]++ }

func (t *tr) flip() bool { return t.r != nil && t.r.Intn(2) == 0 }

func (t *tr) oneIn(n int) bool { return t.r != nil && t.r.Intn(n) == 0 }

// add appends an operand to a chain, either spliced (x.Op("+").Id("y")) or as one nested
// statement (x.Op("+").Add(y)): a statement renders its items joined by single spaces and a
// nested statement is one such item, so both spell the same text.
func (t *tr) add(dst []term.Node, items []term.Node) []term.Node {
	if len(items) > 0 && t.flip() {
		t.st.Nodes++
		return append(dst, term.S(items...))
	}
	return append(dst, items...)
}

func (t *tr) group(method string, items ...term.Node) *term.Group {
	t.st.Nodes++
	switch n := len(items); {
	case n == 0:
		t.feat("arity:0")
	case n >= 8:
		t.feat("arity:8+")
	case n >= 5:
		t.feat("arity:5-7")
	}
	return term.G(method, items...)
}

// enter / leave count the nesting of groups.
func (t *tr) enter() {
	t.depth++
	if t.depth > t.st.MaxDepth {
		t.st.MaxDepth = t.depth
	}
}
func (t *tr) leave() { t.depth-- }

func (t *tr) tok(k term.Tok) term.Tok { t.st.Nodes++; return k }

func (t *tr) empty() term.Node {
	t.feat("empty")
	if t.flip() {
		return term.S(t.tok(term.Named("Empty")))
	}
	return term.S(t.tok(term.Op("")))
}

var stmtType = reflect.TypeOf(&jen.Statement{})

func hasMethod(name string) bool {
	_, ok := stmtType.MethodByName(name)
	return ok
}

// one-token constructs of the README's tables (keywords table: Types, Constants, Helpers)
var identMethods = map[string]string{}

// built-in function constructs and their arity (-1 = variadic)
var builtinGroups = map[string]int{
	"append": -1, "cap": 1, "clear": 1, "close": 1, "complex": 2, "copy": 2, "delete": 2, "imag": 1,
	"len": 1, "make": -1, "max": -1, "min": -1, "new": 1, "panic": 1, "print": -1, "println": -1,
	"real": 1, "recover": 0,
}

func title(s string) string { return strings.ToUpper(s[:1]) + s[1:] }

func init() {
	for _, n := range []string{"bool", "byte", "complex64", "complex128", "error", "float32", "float64", "int", "int8",
		"int16", "int32", "int64", "rune", "string", "uint", "uint8", "uint16", "uint32", "uint64", "uintptr",
		"true", "false", "iota", "nil", "err", "any", "comparable"} {
		if hasMethod(title(n)) {
			identMethods[n] = title(n)
		}
	}
	for n := range builtinGroups {
		if !hasMethod(title(n)) {
			delete(builtinGroups, n)
		}
	}
}

func (t *tr) ident(name string) term.Node {
	if m, ok := identMethods[name]; ok && t.flip() {
		t.feat("ident:named")
		return t.tok(term.Named(m))
	}
	return t.tok(term.Id(name))
}

func (t *tr) kw(method string) term.Node { return t.tok(term.Named(method)) }

func (t *tr) op(s string) term.Node { return t.tok(term.Op(s)) }

// item makes one item of a group out of the items of an expression.
func (t *tr) item(items []term.Node) term.Node {
	t.st.Nodes++
	return term.S(items...)
}

// ---- literals ----

// floatText is how jennifer writes Lit(float64) (tokens.go).
func floatText(f float64) string {
	out := fmt.Sprintf("%#v", f)
	if !strings.Contains(out, ".") && !strings.Contains(out, "e") {
		out += ".0"
	}
	return out
}

// scansAs reports whether text is exactly one token of kind k.
func scansAs(text string, k token.Token) bool {
	var s scanner.Scanner
	fs := token.NewFileSet()
	s.Init(fs.AddFile("", fs.Base(), len(text)), []byte(text), nil, 0)
	_, tk, lit := s.Scan()
	if tk != k || lit != text {
		return false
	}
	_, tk, lit = s.Scan()
	return tk == token.EOF || (tk == token.SEMICOLON && lit == "\n")
}

func (t *tr) basicLit(x *ast.BasicLit) term.Node {
	switch x.Kind {
	case token.INT:
		v := constant.MakeFromLiteral(x.Value, token.INT, 0)
		if i, exact := constant.Int64Val(v); v.Kind() == constant.Int && exact && int64(int(i)) == i {
			t.feat("lit:int")
			return t.tok(term.Lit(int(i)))
		}
		t.feat("lit:int-text") // beyond int: kept as source text
	case token.FLOAT:
		v := constant.MakeFromLiteral(x.Value, token.FLOAT, 0)
		if v.Kind() != constant.Unknown {
			f, _ := constant.Float64Val(v)
			if !math.IsInf(f, 0) && !math.IsNaN(f) {
				txt := floatText(f)
				if scansAs(txt, token.FLOAT) {
					w := constant.MakeFromLiteral(txt, token.FLOAT, 0)
					if w.Kind() != constant.Unknown && constant.Compare(v, token.EQL, w) {
						t.feat("lit:float")
						return t.tok(term.Lit(f))
					}
				}
			}
		}
		t.feat("lit:float-text") // not exactly a float64 (or overflows): kept as source text
	case token.IMAG:
		t.feat("lit:imag-text") // Lit(complex128) renders a parenthesised sum, not a literal
	case token.CHAR:
		if len(x.Value) >= 3 {
			if r, _, tail, err := strconv.UnquoteChar(x.Value[1:len(x.Value)-1], '\''); err == nil && tail == "" {
				t.feat("lit:rune")
				return t.tok(term.LitRune(r))
			}
		}
		t.feat("lit:rune-text")
	case token.STRING:
		if s, err := strconv.Unquote(x.Value); err == nil {
			if x.Value[0] == '`' {
				t.feat("lit:string-raw")
			} else {
				t.feat("lit:string")
			}
			return t.tok(term.Lit(s))
		}
		t.feat("lit:string-text")
	}
	return t.op(x.Value)
}

// typedLit recognises T(<int literal>) for the integer types Lit renders with their type
// (README: Lit(int16(1)) -> int16(1), LitByte(byte(1)) -> byte(0x1)).
func (t *tr) typedLit(c *ast.CallExpr) (term.Node, bool) {
	id, ok := c.Fun.(*ast.Ident)
	if !ok || len(c.Args) != 1 || c.Ellipsis.IsValid() {
		return nil, false
	}
	bl, ok := c.Args[0].(*ast.BasicLit)
	if !ok || bl.Kind != token.INT {
		return nil, false
	}
	v := constant.MakeFromLiteral(bl.Value, token.INT, 0)
	u, exact := constant.Uint64Val(v)
	if v.Kind() != constant.Int || !exact {
		return nil, false
	}
	var out interface{}
	switch id.Name {
	case "byte":
		if u <= math.MaxUint8 {
			t.feat("lit:byte")
			return t.tok(term.LitByte(byte(u))), true
		}
	case "int8":
		if u <= math.MaxInt8 {
			out = int8(u)
		}
	case "int16":
		if u <= math.MaxInt16 {
			out = int16(u)
		}
	case "int32":
		if u <= math.MaxInt32 {
			out = int32(u)
		}
	case "int64":
		if u <= math.MaxInt64 {
			out = int64(u)
		}
	case "uint":
		if u <= math.MaxUint32 {
			out = uint(u)
		}
	case "uint8":
		if u <= math.MaxUint8 {
			out = uint8(u)
		}
	case "uint16":
		if u <= math.MaxUint16 {
			out = uint16(u)
		}
	case "uint32":
		if u <= math.MaxUint32 {
			out = uint32(u)
		}
	case "uint64":
		out = uint64(u)
	case "uintptr":
		if u <= math.MaxUint32 {
			out = uintptr(u)
		}
	}
	if out == nil {
		return nil, false
	}
	t.feat("lit:typed")
	return t.tok(term.Lit(out)), true
}

// ---- struct tags ----

// conventionalTag splits tag into key:"value" pairs when Tag(map) renders exactly tag.
func conventionalTag(tag string) ([][2]string, bool) {
	var kv [][2]string
	rest := tag
	for rest != "" {
		i := 0
		for i < len(rest) && rest[i] > ' ' && rest[i] != ':' && rest[i] != '"' && rest[i] != 0x7f {
			i++
		}
		if i == 0 || i+1 >= len(rest) || rest[i] != ':' || rest[i+1] != '"' {
			return nil, false
		}
		key := rest[:i]
		rest = rest[i+1:]
		j := 1
		for j < len(rest) && rest[j] != '"' {
			if rest[j] == '\\' {
				j++
			}
			j++
		}
		if j >= len(rest) {
			return nil, false
		}
		val, err := strconv.Unquote(rest[:j+1])
		if err != nil {
			return nil, false
		}
		kv = append(kv, [2]string{key, val})
		rest = rest[j+1:]
		if rest != "" {
			if rest[0] != ' ' {
				return nil, false
			}
			rest = rest[1:]
			if rest == "" {
				return nil, false
			}
		}
	}
	if len(kv) == 0 {
		return nil, false
	}
	// what jennifer writes for this map: keys sorted, k:%q joined by one space
	m := map[string]string{}
	var keys []string
	for _, p := range kv {
		if _, dup := m[p[0]]; dup {
			return nil, false
		}
		m[p[0]] = p[1]
		keys = append(keys, p[0])
	}
	sort.Strings(keys)
	var parts []string
	for _, k := range keys {
		parts = append(parts, fmt.Sprintf("%s:%q", k, m[k]))
	}
	if strings.Join(parts, " ") != tag {
		return nil, false
	}
	return kv, true
}

// ---- expressions and types ----

func (t *tr) expr(e ast.Expr) []term.Node { return t.exprC(e, false) }

// exprC translates an expression or type; constraint marks the positions where a
// top-level chain of | is a union of type terms (interface element, type parameter
// constraint), for which the DSL has Union.
func (t *tr) exprC(e ast.Expr, constraint bool) []term.Node {
	switch x := e.(type) {
	case *ast.Ident:
		return []term.Node{t.ident(x.Name)}
	case *ast.BasicLit:
		return []term.Node{t.basicLit(x)}
	case *ast.ParenExpr:
		t.feat("parens")
		t.enter()
		defer t.leave()
		return []term.Node{t.group("Parens", t.item(t.expr(x.X)))}
	case *ast.SelectorExpr:
		if id, ok := x.X.(*ast.Ident); ok && id.Obj == nil {
			if im := t.imports[id.Name]; im != nil {
				im.used = true
				t.feat("qual")
				t.st.Nodes++
				return []term.Node{term.Qual(im.path, x.Sel.Name)}
			}
		}
		out := t.expr(x.X)
		if t.oneIn(8) {
			t.feat("dot:op") // Op(".").Id(sel): the same two tokens Dot appends
			return append(out, t.op("."), t.tok(term.Id(x.Sel.Name)))
		}
		return append(out, t.tok(term.Dot(x.Sel.Name)))
	case *ast.IndexExpr:
		out := t.expr(x.X)
		t.enter()
		defer t.leave()
		if t.oneIn(4) {
			t.feat("index:types") // one index or one type argument: Types(T) writes the same [T]
			return append(out, t.group("Types", t.item(t.expr(x.Index))))
		}
		return append(out, t.group("Index", t.item(t.expr(x.Index))))
	case *ast.IndexListExpr:
		out := t.expr(x.X)
		t.enter()
		defer t.leave()
		t.feat("instantiate")
		var items []term.Node
		for _, ix := range x.Indices {
			items = append(items, t.item(t.expr(ix)))
		}
		return append(out, t.group("Types", items...))
	case *ast.SliceExpr:
		out := t.expr(x.X)
		t.enter()
		defer t.leave()
		bound := func(b ast.Expr) term.Node {
			if b == nil {
				return t.empty()
			}
			return t.item(t.expr(b))
		}
		items := []term.Node{bound(x.Low), bound(x.High)}
		if x.Slice3 {
			t.feat("slice:3index")
			items = append(items, bound(x.Max))
		} else {
			t.feat("slice:2index")
		}
		return append(out, t.group("Index", items...))
	case *ast.TypeAssertExpr:
		out := t.expr(x.X)
		t.enter()
		defer t.leave()
		if x.Type == nil {
			return append(out, t.group("Assert", t.item([]term.Node{t.kw("Type")})))
		}
		t.feat("assert")
		return append(out, t.group("Assert", t.item(t.expr(x.Type))))
	case *ast.CallExpr:
		return t.call(x)
	case *ast.StarExpr:
		return t.add([]term.Node{t.op("*")}, t.expr(x.X))
	case *ast.UnaryExpr:
		t.feat("unary:" + x.Op.String())
		return t.add([]term.Node{t.op(x.Op.String())}, t.expr(x.X))
	case *ast.BinaryExpr:
		if constraint && x.Op == token.OR && t.flip() {
			// a | b | c is ((a|b)|c): Union(a, b, c) writes the same chain
			var terms []ast.Expr
			var cur ast.Expr = x
			for {
				b, ok := cur.(*ast.BinaryExpr)
				if !ok || b.Op != token.OR {
					break
				}
				terms = append([]ast.Expr{b.Y}, terms...)
				cur = b.X
			}
			terms = append([]ast.Expr{cur}, terms...)
			t.feat("union")
			t.enter()
			defer t.leave()
			var items []term.Node
			for _, tm := range terms {
				items = append(items, t.item(t.expr(tm)))
			}
			return []term.Node{t.group("Union", items...)}
		}
		if constraint && x.Op == token.OR {
			t.feat("union:op")
		}
		out := t.exprC(x.X, constraint)
		out = append(out, t.op(x.Op.String()))
		return t.add(out, t.expr(x.Y))
	case *ast.KeyValueExpr:
		out := t.expr(x.Key)
		out = append(out, t.op(":"))
		return t.add(out, t.expr(x.Value))
	case *ast.CompositeLit:
		var out []term.Node
		if x.Type != nil {
			out = t.expr(x.Type)
		} else {
			t.feat("complit:elided-type")
		}
		t.enter()
		defer t.leave()
		if d := t.dict(x); d != nil {
			t.feat("complit:dict")
			return append(out, t.group("Values", d))
		}
		var items []term.Node
		for _, el := range x.Elts {
			items = append(items, t.item(t.expr(el)))
		}
		return append(out, t.group("Values", items...))
	case *ast.FuncLit:
		t.feat("funclit")
		out := []term.Node{t.kw("Func")}
		out = append(out, t.signature(x.Type)...)
		return append(out, t.block(x.Body.List))
	case *ast.FuncType:
		out := []term.Node{t.kw("Func")}
		return append(out, t.signature(x)...)
	case *ast.ArrayType:
		t.enter()
		var g *term.Group
		switch l := x.Len.(type) {
		case nil:
			g = t.group("Index")
			t.feat("type:slice")
		case *ast.Ellipsis:
			if l.Elt != nil {
				t.skip(SkipUnknownNode, l, "[...T]")
			}
			g = t.group("Index", t.item([]term.Node{t.op("...")}))
			t.feat("type:array-ellipsis")
		default:
			g = t.group("Index", t.item(t.expr(x.Len)))
			t.feat("type:array")
		}
		t.leave()
		return t.add([]term.Node{g}, t.expr(x.Elt))
	case *ast.Ellipsis:
		t.feat("type:variadic")
		if x.Elt == nil {
			return []term.Node{t.op("...")}
		}
		return t.add([]term.Node{t.op("...")}, t.expr(x.Elt))
	case *ast.StructType:
		t.feat("type:struct")
		t.enter()
		defer t.leave()
		var items []term.Node
		for _, f := range x.Fields.List {
			items = append(items, t.structField(f))
		}
		return []term.Node{t.group("Struct", items...)}
	case *ast.InterfaceType:
		t.feat("type:interface")
		t.enter()
		defer t.leave()
		var items []term.Node
		for _, f := range x.Methods.List {
			switch {
			case len(f.Names) == 0:
				t.feat("iface:embedded")
				items = append(items, t.item(t.exprC(f.Type, true)))
			default:
				ft, ok := f.Type.(*ast.FuncType)
				if !ok || len(f.Names) != 1 {
					t.skip(SkipUnknownNode, f, "interface method")
				}
				t.feat("iface:method")
				it := []term.Node{t.tok(term.Id(f.Names[0].Name))}
				items = append(items, t.item(append(it, t.signature(ft)...)))
			}
		}
		return []term.Node{t.group("Interface", items...)}
	case *ast.MapType:
		t.feat("type:map")
		t.enter()
		g := t.group("Map", t.item(t.expr(x.Key)))
		t.leave()
		return t.add([]term.Node{g}, t.expr(x.Value))
	case *ast.ChanType:
		var out []term.Node
		switch x.Dir {
		case ast.SEND | ast.RECV:
			t.feat("type:chan")
			out = []term.Node{t.kw("Chan")}
		case ast.RECV:
			t.feat("type:chan-recv")
			out = []term.Node{t.op("<-"), t.kw("Chan")}
		case ast.SEND:
			t.feat("type:chan-send")
			out = []term.Node{t.kw("Chan"), t.op("<-")}
		default:
			t.skip(SkipUnknownNode, x, "chan direction")
		}
		return t.add(out, t.expr(x.Value))
	case nil:
		panic("rebuild: nil expression")
	case *ast.BadExpr:
		t.skip(SkipBadNode, x, "BadExpr")
	}
	t.skip(SkipUnknownNode, e, fmt.Sprintf("%T", e))
	return nil
}

func (t *tr) call(x *ast.CallExpr) []term.Node {
	if t.flip() {
		if n, ok := t.typedLit(x); ok {
			return []term.Node{n}
		}
	}
	t.enter()
	var args []term.Node
	for i, a := range x.Args {
		it := t.expr(a)
		if i == len(x.Args)-1 && x.Ellipsis.IsValid() {
			t.feat("call:variadic")
			it = append(it, t.op("..."))
		}
		args = append(args, t.item(it))
	}
	t.leave()
	if id, ok := x.Fun.(*ast.Ident); ok && id.Obj == nil {
		if ar, ok := builtinGroups[id.Name]; ok && (ar < 0 || ar == len(args)) && t.flip() {
			t.feat("call:builtin")
			return []term.Node{t.group(title(id.Name), args...)}
		}
	}
	out := t.expr(x.Fun)
	if len(args) == 1 && !x.Ellipsis.IsValid() && t.oneIn(4) {
		t.feat("call:parens") // README: Index().Byte().Parens(Id("s")) for a conversion
		return append(out, t.group("Parens", args[0]))
	}
	t.feat("call")
	return append(out, t.group("Call", args...))
}

// dict returns a Dict for a composite literal whose elements are all key: value with keys
// whose rendered texts are strictly ascending (a Dict is written in the order of its key
// texts), else nil.  Keys are identifiers or string / int literals (no Qual: the order in
// which competing Qual keys are registered is a recorded finding).
func (t *tr) dict(x *ast.CompositeLit) *term.Dict {
	if len(x.Elts) == 0 || !t.oneIn(3) {
		return nil
	}
	prev := ""
	type kt struct {
		node term.Tok
		val  ast.Expr
	}
	var ks []kt
	for i, el := range x.Elts {
		kv, ok := el.(*ast.KeyValueExpr)
		if !ok {
			return nil
		}
		var txt string
		var node term.Tok
		switch k := kv.Key.(type) {
		case *ast.Ident:
			txt, node = k.Name, term.Id(k.Name)
		case *ast.BasicLit:
			switch k.Kind {
			case token.STRING:
				s, err := strconv.Unquote(k.Value)
				if err != nil {
					return nil
				}
				txt, node = fmt.Sprintf("%#v", s), term.Lit(s)
			case token.INT:
				v := constant.MakeFromLiteral(k.Value, token.INT, 0)
				i64, exact := constant.Int64Val(v)
				if v.Kind() != constant.Int || !exact || int64(int(i64)) != i64 {
					return nil
				}
				txt, node = fmt.Sprintf("%#v", int(i64)), term.Lit(int(i64))
			default:
				return nil
			}
		default:
			return nil
		}
		if i > 0 && !(prev < txt) {
			return nil
		}
		prev = txt
		ks = append(ks, kt{node, kv.Value})
	}
	d := &term.Dict{}
	for _, k := range ks {
		d.Pairs = append(d.Pairs, [2]term.Node{term.S(t.tok(k.node)), t.item(t.expr(k.val))})
	}
	t.st.Nodes++
	return d
}

// fieldItems gives the items of a Params / Types group for a field list.
func (t *tr) fieldItems(fl *ast.FieldList, constraint bool) []term.Node {
	var out []term.Node
	if fl == nil {
		return nil
	}
	for _, f := range fl.List {
		typ := t.exprC(f.Type, constraint)
		switch n := len(f.Names); {
		case n == 0:
			out = append(out, t.item(typ))
		case n == 1:
			out = append(out, t.item(t.add([]term.Node{t.tok(term.Id(f.Names[0].Name))}, typ)))
		default:
			t.feat("field:grouped-names")
			if t.flip() {
				// README: Params(Id("b"), Id("c").String()) -> (b, c string)
				for _, nm := range f.Names[:n-1] {
					out = append(out, t.item([]term.Node{t.tok(term.Id(nm.Name))}))
				}
				out = append(out, t.item(t.add([]term.Node{t.tok(term.Id(f.Names[n-1].Name))}, typ)))
			} else {
				out = append(out, t.item(t.add([]term.Node{t.nameList(f.Names)}, typ)))
			}
		}
	}
	return out
}

func (t *tr) nameList(names []*ast.Ident) term.Node {
	var ids []term.Node
	for _, nm := range names {
		ids = append(ids, t.item([]term.Node{t.tok(term.Id(nm.Name))}))
	}
	return t.group("List", ids...)
}

func (t *tr) structField(f *ast.Field) term.Node {
	var it []term.Node
	switch n := len(f.Names); {
	case n == 0:
		t.feat("field:embedded")
	case n == 1:
		it = append(it, t.tok(term.Id(f.Names[0].Name)))
	default:
		t.feat("field:grouped-names")
		it = append(it, t.nameList(f.Names)) // README: List(Id("x"), Id("y")).Int()
	}
	it = t.add(it, t.expr(f.Type))
	if f.Tag != nil {
		s, err := strconv.Unquote(f.Tag.Value)
		if err != nil || f.Tag.Kind != token.STRING {
			t.skip(SkipBadNode, f.Tag, "struct tag")
		}
		if kv, ok := conventionalTag(s); ok && !t.oneIn(4) {
			t.feat("tag:map")
			t.st.Nodes++
			it = append(it, term.Tag{KV: kv})
		} else {
			t.feat("tag:lit")
			it = append(it, t.tok(term.Lit(s)))
		}
	}
	return t.item(it)
}

// combinesWithName: go/printer's test for a type parameter list [P T] that would be read
// as an array length [P*T]; such a list needs a trailing comma.
func combinesWithName(x ast.Expr) bool {
	switch x := x.(type) {
	case *ast.StarExpr:
		return true
	case *ast.BinaryExpr:
		return combinesWithName(x.X) && !isTypeElem(x.Y)
	case *ast.ParenExpr:
		return true // [P (T)] reads as the call P(T)
	}
	return false
}

func isTypeElem(x ast.Expr) bool {
	switch x := x.(type) {
	case *ast.ArrayType, *ast.StructType, *ast.FuncType, *ast.InterfaceType, *ast.MapType, *ast.ChanType:
		return true
	case *ast.UnaryExpr:
		return x.Op == token.TILDE
	case *ast.BinaryExpr:
		return isTypeElem(x.X) || isTypeElem(x.Y)
	case *ast.ParenExpr:
		return isTypeElem(x.X)
	}
	return false
}

// typeParams gives the Types group of a declaration.  A type declaration whose single
// type parameter would be read as an array length gets a trailing Empty() (the comma Go
// itself requires there).
func (t *tr) typeParams(fl *ast.FieldList, typeDecl bool) term.Node {
	t.feat("typeparams")
	t.enter()
	defer t.leave()
	items := t.fieldItems(fl, true)
	if typeDecl && fl.NumFields() == 1 && combinesWithName(fl.List[0].Type) {
		t.feat("typeparams:trailing-comma")
		items = append(items, t.empty())
	}
	return t.group("Types", items...)
}

// signature gives [Types] Params [result] of a function type (without the func keyword).
func (t *tr) signature(ft *ast.FuncType) []term.Node {
	var out []term.Node
	if ft.TypeParams != nil && len(ft.TypeParams.List) > 0 {
		out = append(out, t.typeParams(ft.TypeParams, false))
	} else if t.oneIn(16) {
		t.feat("typeparams:none") // Types() without items renders nothing
		out = append(out, t.group("Types"))
	}
	t.enter()
	ps := t.fieldItems(ft.Params, false)
	t.leave()
	out = append(out, t.group("Params", ps...))
	r := ft.Results
	switch {
	case r == nil:
		t.feat("result:none")
	case len(r.List) == 1 && len(r.List[0].Names) == 0 && !t.oneIn(4):
		t.feat("result:single")
		out = t.add(out, t.expr(r.List[0].Type))
	default:
		t.feat("result:params")
		t.enter()
		rs := t.fieldItems(r, false)
		t.leave()
		out = append(out, t.group("Params", rs...))
	}
	return out
}

// ---- statements ----

func (t *tr) block(list []ast.Stmt) term.Node {
	t.enter()
	defer t.leave()
	var items []term.Node
	for _, s := range list {
		if es, ok := s.(*ast.EmptyStmt); ok {
			if !es.Implicit {
				t.feat("stmt:explicit-empty-dropped") // a lone ";": gofmt deletes it, the DSL has no element for it
			}
			continue
		}
		items = append(items, t.item(t.stmt(s)))
	}
	if len(items) == 0 {
		t.feat("block:empty")
	}
	return t.group("Block", items...)
}

// exprList gives the operand list of an assignment side: List(..), or the bare operand.
func (t *tr) exprList(es []ast.Expr) []term.Node {
	if len(es) == 1 && !t.oneIn(4) {
		return t.expr(es[0])
	}
	var items []term.Node
	for _, e := range es {
		items = append(items, t.item(t.expr(e)))
	}
	return []term.Node{t.group("List", items...)}
}

func (t *tr) stmt(s ast.Stmt) []term.Node {
	switch x := s.(type) {
	case *ast.ExprStmt:
		return t.expr(x.X)
	case *ast.AssignStmt:
		t.feat("assign:" + x.Tok.String())
		out := t.exprList(x.Lhs)
		out = append(out, t.op(x.Tok.String()))
		return t.add(out, t.exprList(x.Rhs))
	case *ast.IncDecStmt:
		t.feat("incdec")
		return append(t.expr(x.X), t.op(x.Tok.String()))
	case *ast.SendStmt:
		t.feat("send")
		out := append(t.expr(x.Chan), t.op("<-"))
		return t.add(out, t.expr(x.Value))
	case *ast.GoStmt:
		t.feat("go")
		return t.add([]term.Node{t.kw("Go")}, t.expr(x.Call))
	case *ast.DeferStmt:
		t.feat("defer")
		return t.add([]term.Node{t.kw("Defer")}, t.expr(x.Call))
	case *ast.ReturnStmt:
		if len(x.Results) == 0 {
			t.feat("return:bare")
		} else {
			t.feat("return")
		}
		t.enter()
		defer t.leave()
		var items []term.Node
		for _, e := range x.Results {
			items = append(items, t.item(t.expr(e)))
		}
		return []term.Node{t.group("Return", items...)}
	case *ast.BranchStmt:
		out := []term.Node{t.kw(title(x.Tok.String()))}
		if x.Label != nil {
			t.feat("branch:" + x.Tok.String() + "-label")
			out = append(out, t.tok(term.Id(x.Label.Name)))
		} else {
			t.feat("branch:" + x.Tok.String())
		}
		return out
	case *ast.BlockStmt:
		t.feat("stmt:block")
		return []term.Node{t.block(x.List)}
	case *ast.IfStmt:
		t.enter()
		var hd []term.Node
		if x.Init != nil {
			t.feat("if:init")
			hd = append(hd, t.item(t.stmt(x.Init)))
		}
		hd = append(hd, t.item(t.expr(x.Cond)))
		t.leave()
		out := []term.Node{t.group("If", hd...), t.block(x.Body.List)}
		if x.Else != nil {
			if _, ok := x.Else.(*ast.IfStmt); ok {
				t.feat("if:else-if")
			} else {
				t.feat("if:else")
			}
			out = append(out, t.kw("Else"))
			out = t.add(out, t.stmt(x.Else))
		}
		return out
	case *ast.SwitchStmt:
		t.enter()
		var hd []term.Node
		switch {
		case x.Init != nil && x.Tag != nil:
			t.feat("switch:init-tag")
			hd = []term.Node{t.item(t.stmt(x.Init)), t.item(t.expr(x.Tag))}
		case x.Init != nil:
			t.feat("switch:init")
			hd = []term.Node{t.item(t.stmt(x.Init)), t.empty()}
		case x.Tag != nil:
			t.feat("switch:tag")
			hd = []term.Node{t.item(t.expr(x.Tag))}
		default:
			t.feat("switch:bare")
		}
		t.leave()
		return []term.Node{t.group("Switch", hd...), t.clauses(x.Body.List)}
	case *ast.TypeSwitchStmt:
		t.feat("typeswitch")
		t.enter()
		var hd []term.Node
		if x.Init != nil {
			t.feat("typeswitch:init")
			hd = append(hd, t.item(t.stmt(x.Init)))
		}
		hd = append(hd, t.item(t.stmt(x.Assign)))
		t.leave()
		return []term.Node{t.group("Switch", hd...), t.clauses(x.Body.List)}
	case *ast.SelectStmt:
		t.feat("select")
		return []term.Node{t.kw("Select"), t.clauses(x.Body.List)}
	case *ast.ForStmt:
		t.enter()
		var hd []term.Node
		opt := func(s ast.Stmt) term.Node {
			if s == nil {
				return t.empty()
			}
			return t.item(t.stmt(s))
		}
		switch {
		case x.Init == nil && x.Post == nil && x.Cond == nil:
			t.feat("for:bare")
			if t.oneIn(6) {
				hd = []term.Node{t.empty(), t.empty(), t.empty()} // for ;; {}
			}
		case x.Init == nil && x.Post == nil:
			t.feat("for:cond")
			if t.oneIn(6) {
				hd = []term.Node{t.empty(), t.item(t.expr(x.Cond)), t.empty()} // for ; c; {}
			} else {
				hd = []term.Node{t.item(t.expr(x.Cond))}
			}
		default:
			n := 0
			for _, present := range []bool{x.Init != nil, x.Cond != nil, x.Post != nil} {
				if present {
					n++
				}
			}
			t.feat(fmt.Sprintf("for:3clause-%dpresent", n))
			var cond term.Node
			if x.Cond == nil {
				cond = t.empty()
			} else {
				cond = t.item(t.expr(x.Cond))
			}
			hd = []term.Node{opt(x.Init), cond, opt(x.Post)}
		}
		t.leave()
		return []term.Node{t.group("For", hd...), t.block(x.Body.List)}
	case *ast.RangeStmt:
		var it []term.Node
		switch {
		case x.Key == nil && x.Value == nil:
			t.feat("range:bare")
		case x.Key == nil:
			t.skip(SkipUnknownNode, x, "range with a value but no key")
		default:
			lhs := []ast.Expr{x.Key}
			if x.Value != nil {
				lhs = append(lhs, x.Value)
				t.feat("range:key-value" + x.Tok.String())
			} else {
				t.feat("range:key" + x.Tok.String())
			}
			it = t.exprList(lhs)
			it = append(it, t.op(x.Tok.String()))
		}
		it = append(it, t.kw("Range"))
		it = t.add(it, t.expr(x.X))
		t.enter()
		hd := t.item(it)
		t.leave()
		return []term.Node{t.group("For", hd), t.block(x.Body.List)}
	case *ast.LabeledStmt:
		out := []term.Node{t.tok(term.Id(x.Label.Name)), t.op(":")}
		if es, ok := x.Stmt.(*ast.EmptyStmt); ok {
			if es.Implicit {
				t.feat("label:before-brace") // only "}" can follow: Id(l).Op(":")
				return out
			}
			// `L: ;` - the empty statement must stay: a case clause or another statement
			// may follow, and a label needs a statement (gofmt keeps this ";" too)
			t.feat("label:explicit-empty")
			return append(out, t.op(";"))
		}
		t.feat("label")
		return t.add(out, t.stmt(x.Stmt))
	case *ast.DeclStmt:
		t.feat("stmt:decl")
		return t.decl(x.Decl)
	case *ast.EmptyStmt:
		// only reached for an empty statement that is not an element of a statement list
		t.feat("stmt:explicit-empty-dropped")
		return nil
	case *ast.CaseClause, *ast.CommClause:
		t.skip(SkipUnknownNode, s, "clause outside a switch body")
	case *ast.BadStmt:
		t.skip(SkipBadNode, s, "BadStmt")
	}
	t.skip(SkipUnknownNode, s, fmt.Sprintf("%T", s))
	return nil
}

// clauses gives the Block of a switch / select body: Case(..).Block(..) and
// Default().Block(..).  Case and Block must be neighbours in ONE statement: the renderer
// drops the braces of a Block only when the item before it in its own statement is a Case
// group or the default token.
func (t *tr) clauses(list []ast.Stmt) term.Node {
	t.enter()
	defer t.leave()
	var items []term.Node
	for _, s := range list {
		var head term.Node
		var body []ast.Stmt
		switch c := s.(type) {
		case *ast.CaseClause:
			body = c.Body
			if c.List == nil {
				t.feat("case:default")
				head = t.kw("Default")
			} else {
				t.feat("case")
				t.enter()
				var es []term.Node
				for _, e := range c.List {
					es = append(es, t.item(t.expr(e)))
				}
				t.leave()
				head = t.group("Case", es...)
			}
		case *ast.CommClause:
			body = c.Body
			if c.Comm == nil {
				t.feat("case:default")
				head = t.kw("Default")
			} else {
				t.feat("case:comm")
				t.enter()
				head = t.group("Case", t.item(t.stmt(c.Comm)))
				t.leave()
			}
		default:
			t.skip(SkipUnknownNode, s, "statement in a switch body that is not a clause")
		}
		if len(body) == 0 {
			t.feat("case:empty-body")
		}
		items = append(items, t.item([]term.Node{head, t.block(body)}))
	}
	return t.group("Block", items...)
}

// ---- declarations ----

func (t *tr) decl(d ast.Decl) []term.Node {
	switch x := d.(type) {
	case *ast.FuncDecl:
		out := []term.Node{t.kw("Func")}
		if x.Recv != nil {
			t.feat("decl:method")
			t.enter()
			rs := t.fieldItems(x.Recv, false)
			t.leave()
			out = append(out, t.group("Params", rs...))
		} else {
			t.feat("decl:func")
		}
		out = append(out, t.tok(term.Id(x.Name.Name)))
		out = append(out, t.signature(x.Type)...)
		if x.Body != nil {
			out = append(out, t.block(x.Body.List))
		} else {
			t.feat("decl:func-no-body")
		}
		return out
	case *ast.GenDecl:
		var kw string
		switch x.Tok {
		case token.CONST:
			kw = "Const"
		case token.VAR:
			kw = "Var"
		case token.TYPE:
			kw = "Type"
		case token.IMPORT:
			t.skip(SkipImportPlace, x, "import declaration")
		default:
			t.skip(SkipUnknownNode, x, "GenDecl "+x.Tok.String())
		}
		out := []term.Node{t.kw(kw)}
		if x.Lparen.IsValid() {
			t.feat("decl:" + x.Tok.String() + "-group")
			t.enter()
			var items []term.Node
			for _, sp := range x.Specs {
				items = append(items, t.item(t.spec(sp)))
			}
			t.leave()
			return append(out, t.group("Defs", items...))
		}
		t.feat("decl:" + x.Tok.String())
		if len(x.Specs) != 1 {
			t.skip(SkipUnknownNode, x, "ungrouped declaration without exactly one spec")
		}
		return t.add(out, t.spec(x.Specs[0]))
	case *ast.BadDecl:
		t.skip(SkipBadNode, d, "BadDecl")
	}
	t.skip(SkipUnknownNode, d, fmt.Sprintf("%T", d))
	return nil
}

func (t *tr) spec(s ast.Spec) []term.Node {
	switch x := s.(type) {
	case *ast.ValueSpec:
		var out []term.Node
		if len(x.Names) == 1 && !t.oneIn(4) {
			out = []term.Node{t.tok(term.Id(x.Names[0].Name))}
		} else {
			out = []term.Node{t.nameList(x.Names)}
		}
		if x.Type != nil {
			out = t.add(out, t.expr(x.Type))
		}
		if len(x.Values) > 0 {
			out = append(out, t.op("="))
			out = t.add(out, t.exprList(x.Values))
		} else {
			t.feat("spec:no-value")
		}
		return out
	case *ast.TypeSpec:
		out := []term.Node{t.tok(term.Id(x.Name.Name))}
		if x.TypeParams != nil && len(x.TypeParams.List) > 0 {
			out = append(out, t.typeParams(x.TypeParams, true))
		}
		if x.Assign.IsValid() {
			t.feat("spec:alias")
			out = append(out, t.op("="))
		}
		return t.add(out, t.expr(x.Type))
	case *ast.ImportSpec:
		t.skip(SkipImportPlace, x, "import spec")
	}
	t.skip(SkipUnknownNode, s, fmt.Sprintf("%T", s))
	return nil
}
