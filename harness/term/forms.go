package term

// FormBuilder builds the jen values of a term like Builder does, but chooses at random, at
// every node, which FORM of the API it goes through (property C14):
//
//   - the first item of a statement: chained method on `&jen.Statement{}`, the package
//     function `jen.X(args)`, or - when the statement is being built as an item inside a
//     ...Func callback - the Group method `g.X(args)`;
//   - every item: directly, or inside `Do(func(s *jen.Statement){ s.X(args) })`;
//   - a group taking a list: `X(items...)` or `XFunc(func(g *jen.Group){ ... })` where the
//     callback builds every statement item through the Group forms and every other item
//     (nil, typed nils, Dicts, statements already built elsewhere) with `g.Add(item)`;
//     Custom / CustomFunc likewise;
//   - literals: Lit / LitFunc, LitRune / LitRuneFunc, LitByte / LitByteFunc;
//   - Dicts: a `jen.Dict{}` literal or `jen.DictFunc`;
//   - comments: Comment(text) or Commentf("%s", text).
//
// The tree built differs from the form-free one only where a non-statement item goes through
// `g.Add(item)` (one more enclosing statement, which renders the same).
//
// Every callback handed to the implementation carries a counter; the builder checks it is 1
// as soon as the constructing call returns and that the callback ran while that call was on
// the stack; Group forms are checked to append exactly one item, the returned pointer.
// Findings go to Log.Violations, counters stay in Log.Counters for checks after rendering.

import (
	"fmt"
	"math/rand"
	"reflect"
	"strings"

	"github.com/dave/jennifer/jen"
)

// FormLog is what a FormBuilder records.
type FormLog struct {
	Forms      map[string]int   // form name -> how often chosen
	Counters   []*int           // one per callback handed to the implementation
	What       []string         // what each counter belongs to
	Violations []string         // checks that failed while building
	Roots      []*jen.Statement // statements asked for from outside (Stmt calls at depth 0)
}

func NewFormLog() *FormLog { return &FormLog{Forms: map[string]int{}} }

type FormBuilder struct {
	R     *rand.Rand
	Funcs map[string]interface{} // exported package functions of jen by name
	Log   *FormLog
	stmts map[*Stmt]*jen.Statement
	depth int
}

func NewFormBuilder(r *rand.Rand, funcs map[string]interface{}, log *FormLog) *FormBuilder {
	return &FormBuilder{R: r, Funcs: funcs, Log: log, stmts: map[*Stmt]*jen.Statement{}}
}

func (fb *FormBuilder) form(name string) { fb.Log.Forms[name]++ }

func (fb *FormBuilder) violation(format string, a ...interface{}) {
	if len(fb.Log.Violations) < 20 {
		fb.Log.Violations = append(fb.Log.Violations, fmt.Sprintf(format, a...))
	}
}

// counter registers a callback; the returned functions are called by the callback (enter)
// and by the builder right after the constructing call returned (check).
func (fb *FormBuilder) counter(what string) (enter func(), check func()) {
	n := new(int)
	onStack := true
	fb.Log.Counters = append(fb.Log.Counters, n)
	fb.Log.What = append(fb.Log.What, what)
	enter = func() {
		*n++
		if !onStack {
			fb.violation("callback of %s ran after the constructing call had returned", what)
		}
	}
	check = func() {
		onStack = false
		if *n != 1 {
			fb.violation("callback of %s ran %d times inside the constructing call", what, *n)
		}
	}
	return
}

// GroupItems reads the unexported items slice of a *jen.Group by reflection: its length and
// the pointer stored in its last element if that is a *Statement. ok is false when the field
// cannot be found (then the caller falls back to what rendering shows).
func GroupItems(g *jen.Group) (n int, last uintptr, ok bool) {
	v := reflect.ValueOf(g)
	if v.IsNil() {
		return 0, 0, false
	}
	f := v.Elem().FieldByName("items")
	if !f.IsValid() || f.Kind() != reflect.Slice {
		return 0, 0, false
	}
	n = f.Len()
	if n > 0 {
		e := f.Index(n - 1)
		if e.Kind() == reflect.Interface && !e.IsNil() && e.Elem().Kind() == reflect.Ptr {
			last = e.Elem().Pointer()
		}
	}
	return n, last, true
}

// ---- one API call, described independently of the form it goes through ----

type apiCall struct {
	name string
	args func() []reflect.Value // evaluated when the call is made (callbacks are created then)
	post []func()               // counter checks to run when the call has returned
}

var codeT = reflect.TypeOf((*jen.Code)(nil)).Elem()

func codeValue(c jen.Code) reflect.Value {
	v := reflect.New(codeT).Elem()
	if c != nil {
		v.Set(reflect.ValueOf(c))
	}
	return v
}

func (fb *FormBuilder) codeValues(items []Node) []reflect.Value {
	out := make([]reflect.Value, len(items))
	for i, it := range items {
		out[i] = codeValue(fb.Code(it))
	}
	return out
}

// Fill is the body of a ...Func callback: it puts the items into g through the Group forms.
func (fb *FormBuilder) Fill(g *jen.Group, items []Node) {
	for _, it := range items {
		if st, ok := it.(*Stmt); ok {
			if _, built := fb.stmts[st]; !built {
				fb.buildStmt(st, g)
				continue
			}
		}
		fb.form("group:Add(item)")
		before, _, ok := GroupItems(g)
		ret := g.Add(fb.Code(it))
		fb.checkGroupAppend(g, before, ok, ret, "Add")
	}
}

func (fb *FormBuilder) checkGroupAppend(g *jen.Group, before int, ok bool, ret *jen.Statement, name string) {
	if !ok {
		return
	}
	n, last, _ := GroupItems(g)
	if n != before+1 {
		fb.violation("Group form of %s changed the number of items of the group from %d to %d", name, before, n)
		return
	}
	if ret == nil || last != reflect.ValueOf(ret).Pointer() {
		fb.violation("Group form of %s: the last item of the group is not the returned statement", name)
	}
}

func (fb *FormBuilder) call(it Node) *apiCall {
	r := fb.R
	val := func(vs ...interface{}) func() []reflect.Value {
		return func() []reflect.Value {
			out := make([]reflect.Value, len(vs))
			for i, v := range vs {
				out[i] = reflect.ValueOf(v)
			}
			return out
		}
	}
	switch x := it.(type) {
	case Tok:
		switch x.Kind {
		case "id":
			return &apiCall{name: "Id", args: val(x.S)}
		case "dot":
			return &apiCall{name: "Dot", args: val(x.S)}
		case "op":
			return &apiCall{name: "Op", args: val(x.S)}
		case "line":
			return &apiCall{name: "Line", args: val()}
		case "null":
			return &apiCall{name: "Null", args: val()}
		case "named":
			return &apiCall{name: x.S, args: val()}
		case "lit":
			if r.Intn(2) == 0 {
				v := reflect.New(reflect.TypeOf((*interface{})(nil)).Elem()).Elem()
				if x.V != nil {
					v.Set(reflect.ValueOf(x.V))
				}
				return &apiCall{name: "Lit", args: func() []reflect.Value { return []reflect.Value{v} }}
			}
			fb.form("LitFunc")
			c := &apiCall{name: "LitFunc"}
			c.args = func() []reflect.Value {
				enter, check := fb.counter("LitFunc")
				c.post = append(c.post, check)
				return []reflect.Value{reflect.ValueOf(func() interface{} { enter(); return x.V })}
			}
			return c
		case "rune":
			if r.Intn(2) == 0 {
				return &apiCall{name: "LitRune", args: val(x.V.(rune))}
			}
			fb.form("LitRuneFunc")
			c := &apiCall{name: "LitRuneFunc"}
			c.args = func() []reflect.Value {
				enter, check := fb.counter("LitRuneFunc")
				c.post = append(c.post, check)
				return []reflect.Value{reflect.ValueOf(func() rune { enter(); return x.V.(rune) })}
			}
			return c
		case "byte":
			if r.Intn(2) == 0 {
				return &apiCall{name: "LitByte", args: val(x.V.(byte))}
			}
			fb.form("LitByteFunc")
			c := &apiCall{name: "LitByteFunc"}
			c.args = func() []reflect.Value {
				enter, check := fb.counter("LitByteFunc")
				c.post = append(c.post, check)
				return []reflect.Value{reflect.ValueOf(func() byte { enter(); return x.V.(byte) })}
			}
			return c
		}
		panic("term: bad token kind " + x.Kind)
	case *Group:
		switch x.Method {
		case "Qual":
			return &apiCall{name: "Qual", args: val(x.Path, x.Name)}
		case "Custom":
			if r.Intn(2) == 0 {
				return &apiCall{name: "Custom", args: func() []reflect.Value {
					return append([]reflect.Value{reflect.ValueOf(x.Opts)}, fb.codeValues(x.Items)...)
				}}
			}
			fb.form("CustomFunc")
			c := &apiCall{name: "CustomFunc"}
			c.args = func() []reflect.Value {
				enter, check := fb.counter("CustomFunc")
				c.post = append(c.post, check)
				return []reflect.Value{reflect.ValueOf(x.Opts), reflect.ValueOf(func(g *jen.Group) { enter(); fb.Fill(g, x.Items) })}
			}
			return c
		}
		m, ok := reflect.TypeOf(&jen.Statement{}).MethodByName(x.Method)
		if !ok {
			panic("term: no method " + x.Method)
		}
		_, hasFunc := reflect.TypeOf(&jen.Statement{}).MethodByName(x.Method + "Func")
		if m.Type.IsVariadic() && hasFunc && r.Intn(2) == 0 {
			fb.form("XFunc")
			c := &apiCall{name: x.Method + "Func"}
			c.args = func() []reflect.Value {
				enter, check := fb.counter(x.Method + "Func")
				c.post = append(c.post, check)
				return []reflect.Value{reflect.ValueOf(func(g *jen.Group) { enter(); fb.Fill(g, x.Items) })}
			}
			return c
		}
		if !m.Type.IsVariadic() && m.Type.NumIn()-1 != len(x.Items) {
			panic(fmt.Sprintf("term: %s takes %d arguments, got %d", x.Method, m.Type.NumIn()-1, len(x.Items)))
		}
		return &apiCall{name: x.Method, args: func() []reflect.Value { return fb.codeValues(x.Items) }}
	case Tag:
		mp := map[string]string{}
		for _, kv := range x.KV {
			mp[kv[0]] = kv[1]
		}
		if x.KV == nil {
			mp = nil
		}
		return &apiCall{name: "Tag", args: val(mp)}
	case Comment:
		if x.F || r.Intn(4) == 0 {
			fb.form("Commentf")
			return &apiCall{name: "Commentf", args: val("%s", x.Text)}
		}
		return &apiCall{name: "Comment", args: val(x.Text)}
	case *Stmt, *Dict, Nil, NilStmt, NilGroup, nil:
		return &apiCall{name: "Add", args: func() []reflect.Value { return []reflect.Value{codeValue(fb.Code(it))} }}
	}
	panic(fmt.Sprintf("term: cannot append %T", it))
}

func callValue(f reflect.Value, in []reflect.Value) *jen.Statement {
	out := f.Call(in) // variadic arguments are passed as individual values
	if len(out) != 1 {
		panic("term: API call did not return one value")
	}
	s, _ := out[0].Interface().(*jen.Statement)
	return s
}

// appendTo appends one item to s through the method form (directly or inside Do).
func (fb *FormBuilder) appendTo(s *jen.Statement, it Node) {
	c := fb.call(it)
	if fb.R.Intn(6) == 0 {
		fb.form("method:Do")
		enter, check := fb.counter("Do")
		ret := s.Do(func(s2 *jen.Statement) {
			enter()
			if s2 != s {
				fb.violation("Statement.Do handed its callback a different statement")
			}
			fb.invokeMethod(s2, c)
		})
		check()
		if ret != s {
			fb.violation("Statement.Do did not return its receiver")
		}
		return
	}
	fb.form("method")
	fb.invokeMethod(s, c)
}

func (fb *FormBuilder) invokeMethod(s *jen.Statement, c *apiCall) {
	m := reflect.ValueOf(s).MethodByName(c.name)
	if !m.IsValid() {
		panic("term: no method " + c.name)
	}
	ret := callValue(m, c.args())
	for _, p := range c.post {
		p()
	}
	if ret != s {
		fb.violation("Statement method %s did not return its receiver", c.name)
	}
}

// first builds the statement that holds the first item: function form, Group form or
// method form on a fresh statement.
func (fb *FormBuilder) first(it Node, g *jen.Group) *jen.Statement {
	if g != nil {
		c := fb.call(it)
		before, _, ok := GroupItems(g)
		var ret *jen.Statement
		if fb.R.Intn(8) == 0 {
			fb.form("group:Do")
			enter, check := fb.counter("Group.Do")
			ret = g.Do(func(s2 *jen.Statement) { enter(); fb.invokeMethod(s2, c) })
			check()
			fb.checkGroupAppend(g, before, ok, ret, "Do")
			return ret
		}
		fb.form("group")
		m := reflect.ValueOf(g).MethodByName(c.name)
		if !m.IsValid() {
			fb.violation("*Group has no method %s", c.name)
			s := &jen.Statement{}
			fb.invokeMethod(s, c)
			g.Add([]jen.Code(*s)...)
			return s
		}
		ret = callValue(m, c.args())
		for _, p := range c.post {
			p()
		}
		fb.checkGroupAppend(g, before, ok, ret, c.name)
		return ret
	}
	switch fb.R.Intn(3) {
	case 0:
		c := fb.call(it)
		f, ok := fb.Funcs[c.name]
		if !ok {
			fb.violation("package jen has no function %s (or the harness registry is out of date)", c.name)
			break
		}
		if fb.R.Intn(8) == 0 {
			fb.form("function:Do")
			enter, check := fb.counter("Do")
			ret := jen.Do(func(s2 *jen.Statement) { enter(); fb.invokeMethod(s2, c) })
			check()
			return ret
		}
		fb.form("function")
		ret := callValue(reflect.ValueOf(f), c.args())
		for _, p := range c.post {
			p()
		}
		if ret == nil {
			fb.violation("function %s returned nil", c.name)
			ret = &jen.Statement{}
		}
		return ret
	}
	s := &jen.Statement{}
	fb.appendTo(s, it)
	return s
}

// buildStmt builds st; with g != nil it is built as a new item of g through the Group forms.
func (fb *FormBuilder) buildStmt(st *Stmt, g *jen.Group) *jen.Statement {
	if len(st.Items) == 0 {
		var s *jen.Statement
		if g != nil {
			fb.form("group:Add()")
			before, _, ok := GroupItems(g)
			s = g.Add()
			fb.checkGroupAppend(g, before, ok, s, "Add")
		} else if fb.R.Intn(2) == 0 {
			s = jen.Add()
		} else {
			s = &jen.Statement{}
		}
		fb.stmts[st] = s
		return s
	}
	// the pointer is only known after the first call: a statement that contains itself
	// cannot be expressed (terms are trees; the plain Builder has the same limit in effect)
	fb.depth++
	s := fb.first(st.Items[0], g)
	fb.stmts[st] = s
	for _, it := range st.Items[1:] {
		fb.appendTo(s, it)
	}
	fb.depth--
	return s
}

// Stmt builds (once) the statement standing for st.
func (fb *FormBuilder) Stmt(st *Stmt) *jen.Statement {
	if s, ok := fb.stmts[st]; ok {
		return s
	}
	top := fb.depth == 0
	s := fb.buildStmt(st, nil)
	if top {
		fb.Log.Roots = append(fb.Log.Roots, s)
	}
	return s
}

func (fb *FormBuilder) Code(n Node) jen.Code {
	switch x := n.(type) {
	case nil, Nil:
		return nil
	case NilStmt:
		return (*jen.Statement)(nil)
	case NilGroup:
		return (*jen.Group)(nil)
	case *Stmt:
		fb.depth++
		defer func() { fb.depth-- }()
		if s, ok := fb.stmts[x]; ok {
			return s
		}
		return fb.buildStmt(x, nil)
	case *Dict:
		return fb.Dict(x)
	}
	panic(fmt.Sprintf("term: %T must be inside a Stmt", n))
}

func (fb *FormBuilder) Dict(d *Dict) jen.Dict {
	fb.depth++
	defer func() { fb.depth-- }()
	if fb.R.Intn(2) == 0 {
		out := jen.Dict{}
		for _, p := range d.Pairs {
			out[fb.Code(p[0])] = fb.Code(p[1])
		}
		return out
	}
	fb.form("DictFunc")
	enter, check := fb.counter("DictFunc")
	out := jen.DictFunc(func(m jen.Dict) {
		enter()
		for _, p := range d.Pairs {
			m[fb.Code(p[0])] = fb.Code(p[1])
		}
	})
	check()
	return out
}

// FormSummary prints the chosen forms compactly (for tags).
func (l *FormLog) FormSummary() string {
	var parts []string
	for k, v := range l.Forms {
		parts = append(parts, fmt.Sprintf("%s=%d", k, v))
	}
	return strings.Join(parts, " ")
}
