// Package term is the harness' own description of a tree of jennifer Code values: it can
// be serialised for the Coq model (Sexp) and built on the real implementation through the
// public API (Build).
package term

import (
	"encoding/hex"
	"fmt"
	"reflect"
	"strings"

	"github.com/dave/jennifer/jen"
)

type Node interface{ isNode() }

type Nil struct{}      // nil interface
type NilStmt struct{}  // (*jen.Statement)(nil)
type NilGroup struct{} // (*jen.Group)(nil)

// Tok is one token appended by a *Statement method.
type Tok struct {
	Kind string      // id | op | named | null | lit | rune | byte | line
	S    string      // id/op text, or method name for "named"
	V    interface{} // lit value (Go value handed to jen.Lit), rune (int32), byte
}

// Group is a *jen.Group created by a *Statement method (or Qual / Custom).
type Group struct {
	Method string       // "Call", "Block", ... ; "Qual"; "Custom"
	Opts   jen.Options  // for Custom
	Path   string       // for Qual
	Name   string       // for Qual
	Items  []Node
}

type Stmt struct{ Items []Node }
type Dict struct{ Pairs [][2]Node }
type Tag struct{ KV [][2]string }
type Comment struct {
	Text string
	F    bool // built with Commentf("%s", Text) instead of Comment(Text): the same comment value
	// Fmt, when set, drives the real Commentf entry points with THIS format and THESE operands
	// (Text must be fmt.Sprintf(Fmt.Format, Fmt.Args...): use the constructor Commentf; the
	// model and the FormBuilder only ever see Text).
	Fmt *CommentFmt
}

// CommentFmt is one Commentf call: format, operands and the entry point it goes through.
type CommentFmt struct {
	Format string
	Args   []interface{}
	// Via: "" = (*Statement).Commentf on the statement being built; "func" = the package
	// function jen.Commentf; "group" = (*Group).Commentf of a real group (handed out by
	// BlockFunc).  "func" and "group" create the statement, so they apply when the comment
	// is the FIRST item of its statement; elsewhere the method form is used.
	Via string
}

// Commentf describes the comment built by Commentf(format, args...) through the entry point
// via; its text is computed here with fmt.Sprintf (operands must print deterministically:
// no pointers).
func Commentf(via, format string, args ...interface{}) Comment {
	return Comment{Text: fmt.Sprintf(format, args...), F: true, Fmt: &CommentFmt{Format: format, Args: args, Via: via}}
}

func (Nil) isNode()      {}
func (NilStmt) isNode()  {}
func (NilGroup) isNode() {}
func (Tok) isNode()      {}
func (*Group) isNode()   {}
func (*Stmt) isNode()    {}
func (*Dict) isNode()    {}
func (Tag) isNode()      {}
func (Comment) isNode()  {}

// ---- convenience constructors ----
func Id(s string) Tok        { return Tok{Kind: "id", S: s} }
func Op(s string) Tok        { return Tok{Kind: "op", S: s} }
func Named(m string) Tok     { return Tok{Kind: "named", S: m} }
func Null() Tok              { return Tok{Kind: "null"} }
func Line() Tok              { return Tok{Kind: "line"} }
func Lit(v interface{}) Tok  { return Tok{Kind: "lit", V: v} }
func LitRune(r rune) Tok     { return Tok{Kind: "rune", V: r} }
func LitByte(b byte) Tok     { return Tok{Kind: "byte", V: b} }

// Dot is the pair of tokens appended by (*Statement).Dot(name): the delimiter "." and the
// identifier name. The model reads it as (tx x2e) (id name); the Builder calls Dot itself.
func Dot(name string) Tok { return Tok{Kind: "dot", S: name} }
func S(items ...Node) *Stmt  { return &Stmt{Items: items} }
func G(method string, items ...Node) *Group {
	return &Group{Method: method, Items: items}
}
func Qual(path, name string) *Group { return &Group{Method: "Qual", Path: path, Name: name} }
func Custom(o jen.Options, items ...Node) *Group {
	return &Group{Method: "Custom", Opts: o, Items: items}
}

// ---- serialisation ----
func X(s string) string { return "x" + hex.EncodeToString([]byte(s)) }

type Ser struct {
	gids map[*Group]int
	next int
}

func NewSer() *Ser { return &Ser{gids: map[*Group]int{}, next: 1} }

func (z *Ser) gid(g *Group) int {
	if id, ok := z.gids[g]; ok {
		return id
	}
	id := z.next
	z.next++
	z.gids[g] = id
	return id
}

// LitSexp prints a literal value the way the model reads it. Float and complex texts are
// produced by fmt itself (the external oracle of DESIGN.md section 3).
func LitSexp(v interface{}) string {
	switch x := v.(type) {
	case bool:
		if x {
			return "(lb 1)"
		}
		return "(lb 0)"
	case string:
		return "(ls " + X(x) + ")"
	case int:
		return fmt.Sprintf("(li %d)", x)
	case int8, int16, int32, int64:
		return fmt.Sprintf("(lit %T %d)", x, x)
	case uint, uint8, uint16, uint32, uint64, uintptr:
		return fmt.Sprintf("(lut %T %d)", x, x)
	case float64:
		return "(lf64 " + X(fmt.Sprintf("%#v", x)) + ")"
	case float32:
		return "(lf32 " + X(fmt.Sprintf("%#v", x)) + ")"
	case complex128:
		return "(lc128 " + X(fmt.Sprintf("%#v", x)) + ")"
	case complex64:
		return "(lc64 " + X(fmt.Sprintf("%#v", x)) + ")"
	default:
		return "(lbad " + X(fmt.Sprintf("%T", v)) + ")"
	}
}

func (z *Ser) Sexp(n Node) string {
	var b strings.Builder
	z.write(&b, n)
	return b.String()
}

func (z *Ser) write(b *strings.Builder, n Node) {
	switch x := n.(type) {
	case nil, Nil:
		b.WriteString("nil")
	case NilStmt:
		b.WriteString("nils")
	case NilGroup:
		b.WriteString("nilg")
	case Tok:
		switch x.Kind {
		case "id":
			b.WriteString("(id " + X(x.S) + ")")
		case "dot":
			b.WriteString("(tx x2e) (id " + X(x.S) + ")")
		case "op":
			b.WriteString("(tx " + X(x.S) + ")")
		case "line":
			b.WriteString("(tx x0a)")
		case "named":
			if x.S == "Empty" {
				// Empty() is hand-written (jen/tokens.go), not a row of the generated token
				// table: an operator token with empty content, which the model reads as (tx x).
				// The Builder still calls the Empty method itself.
				b.WriteString("(tx x)")
				break
			}
			b.WriteString("(c " + x.S + ")")
		case "null":
			b.WriteString("null")
		case "lit":
			b.WriteString(LitSexp(x.V))
		case "rune":
			fmt.Fprintf(b, "(lr %d)", x.V.(rune))
		case "byte":
			fmt.Fprintf(b, "(lby %d)", x.V.(byte))
		default:
			panic("term: bad token kind " + x.Kind)
		}
	case *Group:
		switch x.Method {
		case "Qual":
			fmt.Fprintf(b, "(q %d %s %s)", z.gid(x), X(x.Path), X(x.Name))
			return
		case "Custom":
			m := 0
			if x.Opts.Multi {
				m = 1
			}
			fmt.Fprintf(b, "(cu %d %s %s %s %d", z.gid(x), X(x.Opts.Open), X(x.Opts.Close), X(x.Opts.Separator), m)
		default:
			fmt.Fprintf(b, "(g %s %d", x.Method, z.gid(x))
		}
		for _, it := range x.Items {
			b.WriteByte(' ')
			z.write(b, it)
		}
		b.WriteByte(')')
	case *Stmt:
		b.WriteString("(s")
		for _, it := range x.Items {
			b.WriteByte(' ')
			z.write(b, it)
		}
		b.WriteByte(')')
	case *Dict:
		b.WriteString("(d")
		for _, p := range x.Pairs {
			b.WriteString(" (")
			z.write(b, p[0])
			b.WriteByte(' ')
			z.write(b, p[1])
			b.WriteByte(')')
		}
		b.WriteByte(')')
	case Tag:
		b.WriteString("(tag")
		for _, kv := range x.KV {
			b.WriteString(" (" + X(kv[0]) + " " + X(kv[1]) + ")")
		}
		b.WriteByte(')')
	case Comment:
		b.WriteString("(cm " + X(x.Text) + ")")
	default:
		panic(fmt.Sprintf("term: cannot serialise %T", n))
	}
}

// ---- building on the implementation ----

// Builder builds real jennifer values. The same *Group node always yields the same
// *jen.Group pointer (captured from a ...Func callback or a Custom/plain call), the same
// *Stmt node the same *jen.Statement.
type Builder struct {
	stmts  map[*Stmt]*jen.Statement
	groups map[*Group]*jen.Group // a *Group node met again is added as the SAME *jen.Group (s.Add(g))
	// StmtHook, when set, builds statements instead of the default chained-method build (the
	// C14 form-choosing builder of forms.go plugs in here and does its own memoising).
	StmtHook func(st *Stmt) *jen.Statement
}

func NewBuilder() *Builder {
	return &Builder{stmts: map[*Stmt]*jen.Statement{}, groups: map[*Group]*jen.Group{}}
}

// Code builds the jen.Code standing for a node used as an item of a group, a Dict
// key/value or an argument of Add.
func (bd *Builder) Code(n Node) jen.Code {
	switch x := n.(type) {
	case nil, Nil:
		return nil
	case NilStmt:
		return (*jen.Statement)(nil)
	case NilGroup:
		return (*jen.Group)(nil)
	case *Stmt:
		return bd.Stmt(x)
	case *Dict:
		return bd.Dict(x)
	case Tok, *Group, Tag, Comment:
		// a token or group is always the item of a statement; wrap
		panic(fmt.Sprintf("term: %T must be inside a Stmt", n))
	default:
		panic(fmt.Sprintf("term: cannot build %T", n))
	}
}

func (bd *Builder) Dict(d *Dict) jen.Dict {
	out := jen.Dict{}
	for _, p := range d.Pairs {
		out[bd.Code(p[0])] = bd.Code(p[1])
	}
	return out
}

func (bd *Builder) codes(items []Node) []jen.Code {
	out := make([]jen.Code, len(items))
	for i, it := range items {
		out[i] = bd.Code(it)
	}
	return out
}

// Stmt builds a statement by chaining the *Statement method for every item.
func (bd *Builder) Stmt(st *Stmt) *jen.Statement {
	if bd.StmtHook != nil {
		return bd.StmtHook(st)
	}
	if s, ok := bd.stmts[st]; ok {
		return s
	}
	s := &jen.Statement{}
	items := st.Items
	if len(items) > 0 {
		// a Commentf comment as first item may go through the entry points that create the statement
		if cm, ok := items[0].(Comment); ok && cm.Fmt != nil && cm.Fmt.Via != "" {
			s = commentfVia(cm.Fmt)
			items = items[1:]
		}
	}
	bd.stmts[st] = s
	for _, it := range items {
		bd.Append(s, it)
	}
	return s
}

// commentfVia creates a statement through jen.Commentf or (*jen.Group).Commentf.
func commentfVia(f *CommentFmt) *jen.Statement {
	switch f.Via {
	case "func":
		return jen.Commentf(f.Format, f.Args...)
	case "group":
		// a real group, handed out by BlockFunc; the statement it returns is the one appended to it
		var s *jen.Statement
		jen.BlockFunc(func(g *jen.Group) { s = g.Commentf(f.Format, f.Args...) })
		if s == nil {
			panic("term: Group.Commentf returned nil")
		}
		return s
	}
	panic("term: bad Commentf entry point " + f.Via)
}

// Append appends one item to s through the public API.
func (bd *Builder) Append(s *jen.Statement, it Node) {
	switch x := it.(type) {
	case Tok:
		switch x.Kind {
		case "id":
			s.Id(x.S)
		case "dot":
			s.Dot(x.S)
		case "op":
			s.Op(x.S)
		case "line":
			s.Line()
		case "null":
			s.Null()
		case "named":
			m := reflect.ValueOf(s).MethodByName(x.S)
			if !m.IsValid() {
				panic("term: no method " + x.S)
			}
			m.Call(nil)
		case "lit":
			s.Lit(x.V)
		case "rune":
			s.LitRune(x.V.(rune))
		case "byte":
			s.LitByte(x.V.(byte))
		default:
			panic("term: bad token kind " + x.Kind)
		}
	case *Group:
		if g, ok := bd.groups[x]; ok {
			// the very same node again: the same pointer again (the serialisation gives both
			// occurrences one identity, and Statement.previous looks for the pointer)
			s.Add(g)
			break
		}
		defer func() {
			if n := len(*s); n > 0 {
				if g, ok := (*s)[n-1].(*jen.Group); ok && g != nil {
					bd.groups[x] = g
				}
			}
		}()
		switch x.Method {
		case "Qual":
			s.Qual(x.Path, x.Name)
		case "Custom":
			s.Custom(x.Opts, bd.codes(x.Items)...)
		default:
			m := reflect.ValueOf(s).MethodByName(x.Method)
			if !m.IsValid() {
				panic("term: no method " + x.Method)
			}
			args := bd.codes(x.Items)
			in := make([]reflect.Value, len(args))
			codeT := reflect.TypeOf((*jen.Code)(nil)).Elem()
			for i, a := range args {
				v := reflect.New(codeT).Elem()
				if a != nil {
					v.Set(reflect.ValueOf(a))
				}
				in[i] = v
			}
			if !m.Type().IsVariadic() && m.Type().NumIn() != len(in) {
				panic(fmt.Sprintf("term: %s takes %d arguments, got %d", x.Method, m.Type().NumIn(), len(in)))
			}
			m.Call(in)
		}
	case Tag:
		mp := map[string]string{}
		for _, kv := range x.KV {
			mp[kv[0]] = kv[1]
		}
		if x.KV == nil {
			mp = nil
		}
		s.Tag(mp)
	case Comment:
		if x.Fmt != nil {
			s.Commentf(x.Fmt.Format, x.Fmt.Args...)
			break
		}
		if x.F {
			s.Commentf("%s", x.Text)
			break
		}
		s.Comment(x.Text)
	case *Stmt, *Dict, Nil, NilStmt, NilGroup, nil:
		s.Add(bd.Code(it))
	default:
		panic(fmt.Sprintf("term: cannot append %T", it))
	}
}
