// harness: generates the cases of one property, runs them on the implementation (built
// from /repo's working tree) and on the extracted Coq model, compares the property's
// projection, runs the implementation-side oracle, shrinks failures, and writes a JSON
// report for ./check.
package main

import (
	"crypto/sha256"
	"encoding/json"
	"flag"
	"fmt"
	"math/rand"
	"os"
	"runtime/debug"
	"sort"
	"strconv"
	"strings"
	"time"

	"verifharness/hist"
	"verifharness/modelproc"
	"verifharness/props"
)

type Failure struct {
	Kind    string   `json:"kind"` // correspondence | oracle | model-error | harness-error
	Name    string   `json:"name,omitempty"`
	Stream  string   `json:"stream,omitempty"`
	Detail  string   `json:"detail"`
	History string   `json:"history"`
	Model   string   `json:"model_output"`
	Impl    []string `json:"impl_observations"`
	Shrunk  bool     `json:"shrunk"`
	Index   int      `json:"case_index"` // index of the (unshrunk) case in the run's deterministic case list
	Oracle  string   `json:"oracle_verdict"`
	Corresp string   `json:"correspondence_verdict"`
}

type Report struct {
	Property    string            `json:"property"`
	Tier        string            `json:"tier"`
	Seed        int64             `json:"seed"`
	Evaluations int               `json:"evaluations"`
	Distinct    int               `json:"distinct_nontrivial"`
	Streams     map[string]int    `json:"streams"`
	Tags        map[string]int    `json:"tags"`
	Failures    []Failure         `json:"failures"`
	Regressions map[string]string `json:"regressions"` // name -> "pass" | "fail"
	Samples     []string          `json:"samples"`
	VMSample    [][2]string       `json:"vm_sample"` // (line, model output) for the in-Coq cross-check
	ModelLines  int64             `json:"model_lines"`
	ModelBytes  int64             `json:"model_bytes"`
	WallS       float64           `json:"wall_s"`
}

type evalResult struct {
	line    string
	model   string
	got     []hist.Obs
	corresp string
	oracle  string
	merr    string
	herr    string
}

func (e *evalResult) failed() bool {
	return e.corresp != "" || e.oracle != "" || e.merr != "" || e.herr != ""
}

// Hang guard.  A changed implementation can block for ever (a leaked semaphore slot, a lock
// taken twice, an endless loop).  Every case runs under a wall-clock limit (VERIF_CASE_TIMEOUT_S,
// default 300 s; the slowest case of the unchanged tree takes a few seconds); a case that does
// not return is reported as a failure of the implementation WITH its history, the blocked
// goroutine is left behind, later cases get 10 s, and after three hangs nothing more is executed.
var hangs int

func caseTimeout() time.Duration {
	if hangs > 0 {
		return 10 * time.Second
	}
	if v, err := strconv.Atoi(os.Getenv("VERIF_CASE_TIMEOUT_S")); err == nil && v > 0 {
		return time.Duration(v) * time.Second
	}
	return 300 * time.Second
}

func execImpl(c *props.Case) (got []hist.Obs, herr string) {
	if hangs >= 3 {
		return nil, "not executed: three earlier cases of this run did not return (see the first failures)"
	}
	type res struct {
		got  []hist.Obs
		herr string
	}
	ch := make(chan res, 1)
	limit := caseTimeout()
	go func() {
		g, h := execImplNow(c)
		ch <- res{g, h}
	}()
	select {
	case r := <-ch:
		return r.got, r.herr
	case <-time.After(limit):
		hangs++
		hist.OpAbandon() // reported here; the watchdog must not end the process because of the same operation
		return []hist.Obs{{Kind: "bad", Msg: fmt.Sprintf("HANG: the implementation did not return within %s while executing this history", limit)}}, ""
	}
}

func execImplNow(c *props.Case) (got []hist.Obs, herr string) {
	defer func() {
		if r := recover(); r != nil {
			herr = fmt.Sprintf("harness panic while executing the history: %v\n%s", r, debug.Stack())
		}
	}()
	w := hist.NewWorld()
	if sp, ok := c.Meta["savepath"].(func(string) string); ok {
		w.SavePath = sp
	}
	if cfg, ok := c.Meta["world"].(func(*hist.World)); ok {
		cfg(w) // per-case configuration of the implementation-side world (C14: form-choosing builder)
	}
	return w.Exec(c.Hist), ""
}

func noformatAt(h hist.History, upto int, f int) bool {
	nf := false
	for i := 0; i < upto; i++ {
		if h[i].Kind == "noformat" && h[i].F == f {
			nf = h[i].Flag
		}
		if (h[i].Kind == "newfile" || h[i].Kind == "newfilepath" || h[i].Kind == "newfilepathname") && h[i].F == f {
			nf = false
		}
	}
	return nf
}

func finish(p props.Property, c *props.Case, e *evalResult) {
	if e.herr != "" {
		return
	}
	for _, o := range e.got {
		if o.Kind == "bad" && strings.HasPrefix(o.Msg, "HANG:") {
			e.oracle = o.Msg // no property allows a render that never returns
			return
		}
	}
	mobs, err := hist.ParseObs(e.model)
	if err != nil {
		e.merr = err.Error()
		return
	}
	exp := make([]hist.Obs, len(mobs))
	// ops that produce an observation, in order (one observation each)
	var obsOps []int
	for i, op := range c.Hist {
		switch op.Kind {
		case "render", "rcode", "rplain", "save", "imports":
			obsOps = append(obsOps, i)
		}
	}
	for i, m := range mobs {
		// the model prints no mode for a save: File.Save writes the text unformatted iff the
		// file's NoFormat is set at that point of the history
		nf := false
		if m.Kind == "save" && i < len(obsOps) {
			nf = noformatAt(c.Hist, obsOps[i], c.Hist[obsOps[i]].F)
		}
		exp[i] = hist.Expected(m, nf)
	}
	e.corresp = p.Compare(c, exp, e.got)
	e.oracle = p.Oracle(c, e.got)
}

func evalOne(p props.Property, pool *modelproc.Pool, c *props.Case) *evalResult {
	e := &evalResult{}
	func() {
		defer func() {
			if r := recover(); r != nil {
				e.herr = fmt.Sprintf("cannot serialise: %v", r)
			}
		}()
		e.line = c.Hist.Sexp()
	}()
	if e.herr != "" {
		return e
	}
	e.got, e.herr = execImpl(c)
	if e.herr != "" {
		return e
	}
	m, err := pool.Run(e.line)
	if err != nil {
		e.merr = err.Error()
		return e
	}
	e.model = m
	finish(p, c, e)
	return e
}

func main() {
	hist.InitDone()
	prop := flag.String("prop", "", "property id")
	tier := flag.String("tier", "quick", "quick | thorough")
	seed := flag.Int64("seed", 1, "PRNG seed")
	model := flag.String("model", "/verif/ocaml/model_driver", "extracted model driver")
	out := flag.String("out", "", "report file (JSON)")
	workers := flag.Int("workers", 14, "model co-processes")
	list := flag.Bool("list", false, "list properties")
	only := flag.Int("only", -1, "replay: evaluate only the case with this index of the (seed, tier) run and print it")
	flag.Parse()
	if *list {
		for _, id := range props.IDs() {
			fmt.Println(id)
		}
		return
	}
	p := props.Get(*prop)
	if p == nil {
		fmt.Fprintln(os.Stderr, "unknown property", *prop)
		os.Exit(2)
	}
	start := time.Now()
	pool, err := modelproc.New(*model, *workers)
	if err != nil {
		fmt.Fprintln(os.Stderr, "cannot start the model:", err)
		os.Exit(2)
	}
	defer pool.Close()
	if cl, ok := p.(props.Closer); ok {
		defer cl.Close() // run-time resources of the property (temp directories of Save targets)
	}

	rng := rand.New(rand.NewSource(*seed))
	var cases []*props.Case
	if rg, ok := p.(props.Regressor); ok {
		cases = append(cases, rg.Regressions()...)
	}
	cases = append(cases, p.Generate(rng, *tier)...)

	if *only >= 0 {
		if *only >= len(cases) {
			fmt.Fprintln(os.Stderr, "no such case index")
			os.Exit(2)
		}
		c := cases[*only]
		e := evalOne(p, pool, c)
		fmt.Printf("case %d of %s (seed %d, tier %s, stream %s)\nhistory: %s\nmodel:   %s\n", *only, *prop, *seed, *tier, c.Stream, e.line, e.model)
		for i, o := range e.got {
			fmt.Printf("impl[%d]: %s\n", i, o.String())
		}
		fmt.Printf("correspondence: %q\noracle: %q\nmodel-error: %q harness-error: %q\n", e.corresp, e.oracle, e.merr, e.herr)
		if e.failed() {
			os.Exit(1)
		}
		return
	}
	rep := &Report{Property: *prop, Tier: *tier, Seed: *seed, Streams: map[string]int{}, Tags: map[string]int{}, Regressions: map[string]string{}, Failures: []Failure{}, Samples: []string{}, VMSample: [][2]string{}}

	// implementation first (sequentially: no assumption about its thread safety), then the model in parallel
	results := make([]*evalResult, len(cases))
	lines := make([]string, len(cases))
	for i, c := range cases {
		e := &evalResult{}
		results[i] = e
		func() {
			defer func() {
				if r := recover(); r != nil {
					e.herr = fmt.Sprintf("cannot serialise: %v", r)
				}
			}()
			e.line = c.Hist.Sexp()
		}()
		if e.herr == "" {
			e.got, e.herr = execImpl(c)
		}
		lines[i] = e.line
	}
	outs, errs := pool.RunAll(lines)
	seen := map[[32]byte]bool{}
	for i, c := range cases {
		e := results[i]
		if e.herr == "" {
			if errs[i] != nil {
				e.merr = errs[i].Error()
			} else {
				e.model = outs[i]
				finish(p, c, e)
			}
		}
		rep.Evaluations++
		rep.Streams[c.Stream]++
		for _, t := range c.Tags {
			rep.Tags[t]++
		}
		if c.NonTrivial {
			h := sha256.Sum256([]byte(e.line))
			if !seen[h] {
				seen[h] = true
				rep.Distinct++
			}
		}
		if c.Name != "" {
			if e.failed() {
				rep.Regressions[c.Name] = "fail"
			} else {
				rep.Regressions[c.Name] = "pass"
			}
		}
	}

	// failures: shrink the first few, report all kinds once per (kind, stream)
	nfail := 0
	oracleListed := 0 // listed failures of the oracle on generated (unnamed) cases
	for i, c := range cases {
		e := results[i]
		if !e.failed() {
			continue
		}
		nfail++
		if nfail > 12 {
			// beyond the first 12 failing cases only failing INPUTS are still listed (oracle
			// failures of generated cases, at most 3 in all): a stream that comes late must not have
			// its failing inputs hidden behind twelve correspondence failures of an earlier stream
			if e.oracle == "" || e.herr != "" || c.Name != "" || oracleListed >= 3 {
				continue
			}
		}
		if e.oracle != "" && e.herr == "" && c.Name == "" {
			oracleListed++
		}
		shr := false
		if sh, ok := p.(props.Shrinker); ok && e.herr == "" && c.Name == "" {
			budget := 300
			for budget > 0 {
				improved := false
				for _, cand := range sh.Shrink(c) {
					if budget <= 0 {
						break
					}
					budget--
					cand.Meta = mergeMeta(c.Meta, cand.Meta)
					ce := evalOne(p, pool, cand)
					if ce.failed() && ce.herr == "" && sameFailureKind(e, ce) {
						c, e = cand, ce
						improved = true
						shr = true
						break
					}
				}
				if !improved {
					break
				}
			}
		}
		ff := mkFailure(c, e, shr)
		ff.Index = i
		rep.Failures = append(rep.Failures, ff)
	}
	if nfail > len(rep.Failures) {
		rep.Failures = append(rep.Failures, Failure{Kind: "summary", Detail: fmt.Sprintf("%d failing cases in total; %d are listed (the first 12, then up to 3 oracle failures)", nfail, len(rep.Failures))})
	}

	// samples and the vm_compute cross-check sample
	step := len(cases)/6 + 1
	for i := 0; i < len(cases); i += step {
		if len(lines[i]) < 2000 {
			rep.Samples = append(rep.Samples, lines[i])
		}
	}
	if len(rep.Samples) == 0 && len(lines) > 0 {
		rep.Samples = append(rep.Samples, truncate(lines[0], 2000))
	}
	vmN := 40
	if *tier == "thorough" {
		vmN = 200
	}
	idx := rng.Perm(len(cases))
	sort.Ints(idx[:min(len(idx), vmN*4)])
	for _, i := range idx {
		if len(rep.VMSample) >= vmN {
			break
		}
		if results[i].herr == "" && results[i].merr == "" && len(lines[i]) < 6000 && len(results[i].model) < 12000 {
			rep.VMSample = append(rep.VMSample, [2]string{lines[i], results[i].model})
		}
	}
	rep.ModelLines = pool.Lines
	rep.ModelBytes = pool.Bytes
	rep.WallS = time.Since(start).Seconds()
	b, _ := json.MarshalIndent(rep, "", " ")
	if *out == "" {
		os.Stdout.Write(b)
	} else if err := os.WriteFile(*out, b, 0644); err != nil {
		fmt.Fprintln(os.Stderr, err)
		os.Exit(2)
	}
}

func min(a, b int) int {
	if a < b {
		return a
	}
	return b
}

func truncate(s string, n int) string {
	if len(s) > n {
		return s[:n] + "..."
	}
	return s
}

func mergeMeta(base, over map[string]interface{}) map[string]interface{} {
	out := map[string]interface{}{}
	for k, v := range base {
		out[k] = v
	}
	for k, v := range over {
		out[k] = v
	}
	return out
}

func sameFailureKind(a, b *evalResult) bool {
	return (a.oracle != "") == (b.oracle != "") && ((a.corresp != "") == (b.corresp != "") || a.oracle != "")
}

func mkFailure(c *props.Case, e *evalResult, shrunk bool) Failure {
	f := Failure{Name: c.Name, Stream: c.Stream, History: e.line, Model: e.model, Shrunk: shrunk, Oracle: e.oracle, Corresp: e.corresp}
	for _, o := range e.got {
		f.Impl = append(f.Impl, o.String())
	}
	switch {
	case e.herr != "":
		f.Kind, f.Detail = "harness-error", e.herr
	case e.oracle != "":
		f.Kind, f.Detail = "oracle", e.oracle
	case e.merr != "":
		f.Kind, f.Detail = "model-error", e.merr
	default:
		f.Kind, f.Detail = "correspondence", e.corresp
	}
	return f
}
