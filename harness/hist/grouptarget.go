package hist

import (
	"fmt"
	"reflect"

	"github.com/dave/jennifer/jen"

	"verifharness/term"
)

// groupTarget makes a *term.Group usable as the target of rcode / rplain, so that
// Group.Render and Group.RenderWithFile are reachable with a real (non-nil) receiver.
//
// The public API hands out a *jen.Group only inside the callback of a ...Func form, so the
// group is built as  new(Statement).<Method>Func(func(g *Group){ g.Add(items of st1...);
// g.Add(items of st2...) ... })  and the pointer the callback received is the target (it is
// the very group the form appends to the statement, jen/generated.go).  Every item of the
// term must be a *term.Stmt: Group.Add(codes...) stores ONE new statement holding the
// codes, which is what the term (g Method id st1 st2 ...) says to the model.
func (w *World) groupTarget(x *term.Group) *jen.Group {
	if g, ok := w.groups[x]; ok {
		return g
	}
	var captured *jen.Group
	fill := func(g *jen.Group) {
		captured = g
		for _, it := range x.Items {
			st, ok := it.(*term.Stmt)
			if !ok {
				panic(fmt.Sprintf("hist: item of a group target must be a *term.Stmt, got %T", it))
			}
			g.Add([]jen.Code(*w.B.Stmt(st))...)
		}
	}
	s := &jen.Statement{}
	switch x.Method {
	case "Qual":
		panic("hist: a Qual cannot be a group target")
	case "Custom":
		s.CustomFunc(x.Opts, fill)
	default:
		m := reflect.ValueOf(s).MethodByName(x.Method + "Func")
		if !m.IsValid() {
			panic("hist: no method " + x.Method + "Func")
		}
		f, ok := m.Interface().(func(func(*jen.Group)) *jen.Statement)
		if !ok {
			panic("hist: " + x.Method + "Func is not a func(func(*Group)) *Statement")
		}
		f(fill)
	}
	if captured == nil {
		panic("hist: " + x.Method + "Func did not call its callback")
	}
	if w.groups == nil {
		w.groups = map[*term.Group]*jen.Group{}
	}
	w.groups[x] = captured
	return captured
}
