package hist

import (
	"fmt"
	"os"
	"runtime"
	"strconv"
	"sync/atomic"
	"time"
)

// Memory watchdog.  A changed implementation can grow its output from render to render
// (a pooled buffer handed back dirty doubles it every time) and allocate gigabytes INSIDE one
// call, where the runaway guard of Exec cannot see it.  The watchdog ends the process with
// exit status 3 and a message naming the operation in flight once the Go heap passes the
// limit (VERIF_HEAP_LIMIT_MB, default 24576), instead of letting the machine run out of
// memory.  It starts in this package's init, which runs before the init of every package
// that builds Files (props measures its path pool at init time).
var inFlight atomic.Value // func() string: describes the operation being executed

func init() {
	limit := uint64(24576)
	if v, err := strconv.ParseUint(os.Getenv("VERIF_HEAP_LIMIT_MB"), 10, 64); err == nil && v > 0 {
		limit = v
	}
	SetInFlight("package initialisation (the path pool is measured by rendering one File per path)")
	go func() {
		var ms runtime.MemStats
		for {
			time.Sleep(250 * time.Millisecond)
			runtime.ReadMemStats(&ms)
			if ms.HeapAlloc>>20 > limit {
				fmt.Fprintf(os.Stderr, "harness: RUNAWAY MEMORY: Go heap %d MB > %d MB while executing: %s\n(the implementation under test allocates without bound; on the unchanged tree the harness stays far below the limit)\n",
					ms.HeapAlloc>>20, limit, inFlight.Load().(func() string)())
				os.Exit(3)
			}
		}
	}()
}

// SetInFlight records what is being executed, for the watchdog's message.
func SetInFlight(s string) { inFlight.Store(func() string { return s }) }

func setInFlightLazy(f func() string) { inFlight.Store(f) }
