package hist

import (
	"fmt"
	"os"
	"runtime"
	"strconv"
	"sync/atomic"
	"time"
)

// Memory watchdog.  A changed implementation can grow its output from render to render
// (a pooled buffer handed back dirty doubles it every time) and allocate gigabytes INSIDE one
// call, where the runaway guard of Exec cannot see it.  The watchdog ends the process with
// exit status 3 and a message naming the operation in flight once the Go heap passes the
// limit (VERIF_HEAP_LIMIT_MB, default 24576), instead of letting the machine run out of
// memory.  It starts in this package's init, which runs before the init of every package
// that builds Files (props measures its path pool at init time).
var inFlight atomic.Value // func() string: describes the operation being executed

func init() {
	limit := uint64(24576)
	if v, err := strconv.ParseUint(os.Getenv("VERIF_HEAP_LIMIT_MB"), 10, 64); err == nil && v > 0 {
		limit = v
	}
	SetInFlight("package initialisation (the path pool is measured by rendering one File per path)")
	start := time.Now()
	go func() {
		var ms runtime.MemStats
		for {
			time.Sleep(250 * time.Millisecond)
			if t := atomic.LoadInt64(&opStart); t != 0 && time.Since(time.Unix(0, t)) > opLimit() {
				fmt.Fprintf(os.Stderr, "harness: HANG: the implementation did not return within %s while executing: %s\n(no property allows a render or save that never returns; on the unchanged tree the slowest operation takes seconds)\n",
					opLimit(), inFlight.Load().(func() string)())
				os.Exit(4)
			}
			if atomic.LoadInt32(&initDone) == 0 && time.Since(start) > initLimit {
				fmt.Fprintf(os.Stderr, "harness: HANG: package initialisation (the path pool is measured by rendering one File per path) did not finish within %s: the implementation under test blocks or grows without bound in a render while executing: %s\n", initLimit, inFlight.Load().(func() string)())
				os.Exit(4)
			}
			runtime.ReadMemStats(&ms)
			if ms.HeapAlloc>>20 > limit {
				fmt.Fprintf(os.Stderr, "harness: RUNAWAY MEMORY: Go heap %d MB > %d MB while executing: %s\n(the implementation under test allocates without bound; on the unchanged tree the harness stays far below the limit)\n",
					ms.HeapAlloc>>20, limit, inFlight.Load().(func() string)())
				os.Exit(3)
			}
		}
	}()
}

// SetInFlight records what is being executed, for the watchdog's message.
func SetInFlight(s string) { inFlight.Store(func() string { return s }) }

func setInFlightLazy(f func() string) { inFlight.Store(f) }

// initDone is set by main at its start: package initialisation builds and renders Files
// (props measures its path pool), and a changed implementation that blocks there would
// otherwise hang the process before any case runs.
var initDone int32

const initLimit = 120 * time.Second

// InitDone tells the watchdog that main has started.
func InitDone() { atomic.StoreInt32(&initDone, 1) }

// opStart: start time (unix nanoseconds) of the render/save operation that World.Exec is
// executing now, 0 when none is.  Exec runs in many places (cases, generators that measure
// something, oracles that re-execute a history), so the limit is enforced here and not in
// the case loop of main.
var opStart int64

func opBegin() { atomic.StoreInt64(&opStart, time.Now().UnixNano()) }
func opEnd()   { atomic.StoreInt64(&opStart, 0) }

// OpAbandon: the caller has given up waiting for the operation in flight (per-case hang guard of
// main) and has reported it; the blocked goroutine will never reach opEnd, so the clock of the
// watchdog is stopped here - otherwise it would end the process while the report is written.
func OpAbandon() { opEnd() }

func opLimit() time.Duration {
	if v, err := strconv.Atoi(os.Getenv("VERIF_CASE_TIMEOUT_S")); err == nil && v > 0 {
		return time.Duration(v) * time.Second
	}
	return 300 * time.Second
}
