// Package hist is the op language of histories: serialisation for the model, execution
// on the implementation, and the observation grammar both sides print.
package hist

import (
	"encoding/hex"
	"errors"
	"fmt"
	"go/format"
	"io"
	"os"
	"sort"
	"strconv"
	"strings"
	"sync"

	"github.com/dave/jennifer/jen"

	"verifharness/term"
)

// Op is one operation of a history.
type Op struct {
	Kind  string // newfile newfilepath newfilepathname prefix noformat canonical header pkgcomment cgo anon importname importalias importnames fadd render rcode rplain save imports
	F     int
	A, B  string
	Strs  []string
	Pairs [][2]string
	Flag  bool       // noformat value / write fault / fs fault
	Code  term.Node  // for fadd (must be *Stmt), rcode, rplain
	Run   func() Obs // for ext (optional): the implementation-side observation of this element
	// MapKey (importnames, optional): operations with the same non-empty MapKey pass THE SAME Go
	// map object to File.ImportNames (the object is made from the Pairs of the first such
	// operation that is executed and later operations reuse it as it is, see MapTable).  The
	// model is unaffected (maps are values there): Sexp prints an ordinary importnames.
	MapKey string
	// WFault (render rcode rplain, optional): the SHAPE of the writer's behaviour (faultWriter).
	// "" = as before: Flag alone decides (Flag: the first Write returns (0, err)).  Otherwise
	//   zero-err    the first Write returns (0, err)
	//   part-err    the first Write takes the first half of p and returns (k, err), 0 < k < len(p)
	//               (k = 0 when len(p) < 2)
	//   full-err    the first Write takes all of p and returns (len(p), err)
	//   short-nil   the first Write takes the first half of p and returns (k, nil) with k < len(p)
	//               (a writer that breaks the io.Writer contract; plain success when len(p) < 2)
	//   second-err  the first Write succeeds, the second one returns (0, err)
	//   third-err   the first two Writes succeed, the third one returns (0, err)
	//   off-err:N   a writer with room for N bytes in all: the Write that would go beyond N takes what
	//               still fits and returns (k, err) (the first Write, when it carries more than N bytes)
	// Flag stays what the model is told (Sexp): true for the shapes whose error reaches a caller
	// that hands over its output with one Write (zero-err part-err full-err), false for the others.
	WFault string
}

// MapTable holds the map objects that importnames operations with a MapKey share.  A World
// has its own table; Worlds that are given the same table (World.Maps) share the objects.
type MapTable struct {
	mu sync.Mutex
	m  map[string]map[string]string
}

func NewMapTable() *MapTable { return &MapTable{m: map[string]map[string]string{}} }

// Get returns the object of key, making it from pairs on first use.
func (t *MapTable) Get(key string, pairs [][2]string) map[string]string {
	t.mu.Lock()
	defer t.mu.Unlock()
	m, ok := t.m[key]
	if !ok {
		m = map[string]string{}
		for _, p := range pairs {
			m[p[0]] = p[1]
		}
		t.m[key] = m
	}
	return m
}

// Lookup returns the object of key (nil if no operation with that key has been executed).
func (t *MapTable) Lookup(key string) map[string]string {
	t.mu.Lock()
	defer t.mu.Unlock()
	return t.m[key]
}

type History []Op

// Sexp prints the history as one line for the model.
func (h History) Sexp() string {
	z := term.NewSer()
	var parts []string
	b2 := func(b bool) string {
		if b {
			return "1"
		}
		return "0"
	}
	for _, op := range h {
		switch op.Kind {
		case "newfile", "newfilepath":
			parts = append(parts, fmt.Sprintf("(%s %d %s)", op.Kind, op.F, term.X(op.A)))
		case "newfilepathname":
			parts = append(parts, fmt.Sprintf("(%s %d %s %s)", op.Kind, op.F, term.X(op.A), term.X(op.B)))
		case "prefix", "canonical", "header", "pkgcomment", "cgo":
			parts = append(parts, fmt.Sprintf("(%s %d %s)", op.Kind, op.F, term.X(op.A)))
		case "noformat":
			parts = append(parts, fmt.Sprintf("(noformat %d %s)", op.F, b2(op.Flag)))
		case "anon":
			var xs []string
			for _, s := range op.Strs {
				xs = append(xs, term.X(s))
			}
			parts = append(parts, strings.TrimSpace(fmt.Sprintf("(anon %d %s", op.F, strings.Join(xs, " ")))+")")
		case "importname", "importalias":
			parts = append(parts, fmt.Sprintf("(%s %d %s %s)", op.Kind, op.F, term.X(op.A), term.X(op.B)))
		case "importnames":
			var xs []string
			for _, p := range op.Pairs {
				xs = append(xs, "("+term.X(p[0])+" "+term.X(p[1])+")")
			}
			parts = append(parts, strings.TrimSpace(fmt.Sprintf("(importnames %d %s", op.F, strings.Join(xs, " ")))+")")
		case "fadd":
			parts = append(parts, fmt.Sprintf("(fadd %d %s)", op.F, z.Sexp(op.Code)))
		case "render":
			parts = append(parts, fmt.Sprintf("(render %d %s)", op.F, b2(op.Flag)))
		case "rcode":
			parts = append(parts, fmt.Sprintf("(rcode %d %s %s)", op.F, z.Sexp(op.Code), b2(op.Flag)))
		case "rplain":
			parts = append(parts, fmt.Sprintf("(rplain %s %s)", z.Sexp(op.Code), b2(op.Flag)))
		case "save":
			parts = append(parts, fmt.Sprintf("(save %d %s %s)", op.F, term.X(op.A), b2(op.Flag)))
		case "imports":
			parts = append(parts, fmt.Sprintf("(imports %d)", op.F))
		case "ext":
			// an element of a non-history line ((heap) (skel) (lit) ...): A is printed verbatim
			parts = append(parts, op.A)
		default:
			panic("hist: bad op " + op.Kind)
		}
	}
	return strings.Join(parts, " ")
}

// Import is one entry of an import table.
type Import struct {
	Path, Name string
	Alias      bool
}

// Obs is one observation.
type Obs struct {
	Kind    string // panic | fmterr | write | save | imports | bad
	Msg     string // panic message
	Mode    string // write: raw | fmt (model side: whether Out is still to be formatted)
	Out     string // bytes written / unformatted text of a format error
	Failed  bool   // the write (or os.WriteFile) failed and that error was returned
	Path    string // save
	Writes  int    // number of Write calls seen (implementation side)
	Imports []Import
	// Offered (implementation side, only for operations with a WFault shape): the argument of
	// every Write call, whatever the writer then took of it.
	Offered []string
}

var errInjected = errors.New("verif: injected write fault")

type faultWriter struct {
	fail    bool
	shape   string // Op.WFault
	calls   int
	buf     []byte   // the bytes the writer took
	offered []string // shape != "": the argument of every call
}

func (w *faultWriter) Write(p []byte) (int, error) {
	w.calls++
	if w.shape != "" {
		w.offered = append(w.offered, string(p))
		switch {
		case w.shape == "zero-err" && w.calls == 1:
			return 0, errInjected
		case w.shape == "part-err" && w.calls == 1:
			k := len(p) / 2
			w.buf = append(w.buf, p[:k]...)
			return k, errInjected
		case w.shape == "full-err" && w.calls == 1:
			w.buf = append(w.buf, p...)
			return len(p), errInjected
		case w.shape == "short-nil" && w.calls == 1 && len(p) >= 2:
			k := len(p) / 2
			w.buf = append(w.buf, p[:k]...)
			return k, nil
		case w.shape == "second-err" && w.calls == 2:
			return 0, errInjected
		case w.shape == "third-err" && w.calls == 3:
			return 0, errInjected
		case strings.HasPrefix(w.shape, "off-err:"):
			// the writer takes bytes until it holds N in all; the Write that would go beyond takes
			// what still fits and returns (k, err); so does every later one (k = 0)
			if n, err := strconv.Atoi(w.shape[len("off-err:"):]); err == nil && len(w.buf)+len(p) > n {
				k := n - len(w.buf)
				if k < 0 {
					k = 0
				}
				w.buf = append(w.buf, p[:k]...)
				return k, errInjected
			}
		}
		w.buf = append(w.buf, p...)
		return len(p), nil
	}
	if w.fail && w.calls == 1 {
		return 0, errInjected
	}
	w.buf = append(w.buf, p...)
	return len(p), nil
}

const fmtErrMarker = " while formatting source:\n"

func classify(err error, w *faultWriter) Obs {
	if err == nil {
		return Obs{Kind: "write", Out: string(w.buf), Writes: w.calls, Offered: w.offered}
	}
	if err == errInjected {
		return Obs{Kind: "write", Out: "", Failed: true, Writes: w.calls, Offered: w.offered}
	}
	if w.shape == "short-nil" && err == io.ErrShortWrite {
		// the writer took less than it was given and said nothing: a caller may notice that itself
		// and report io.ErrShortWrite (Msg), or not; Out is what the writer took
		return Obs{Kind: "write", Out: string(w.buf), Writes: w.calls, Offered: w.offered, Msg: "io.ErrShortWrite"}
	}
	msg := err.Error()
	if i := strings.Index(msg, fmtErrMarker); i >= 0 && strings.HasPrefix(msg, "Error ") {
		return Obs{Kind: "fmterr", Out: msg[i+len(fmtErrMarker):], Writes: w.calls, Msg: msg[:i]}
	}
	return Obs{Kind: "bad", Msg: "unexpected error: " + msg, Writes: w.calls}
}

func panicMsg(r interface{}) string {
	switch x := r.(type) {
	case error:
		return x.Error()
	case string:
		return x
	default:
		return fmt.Sprint(r)
	}
}

// World is the implementation-side state of a history.
type World struct {
	Files map[int]*jen.File
	B     *term.Builder
	// SaveDir maps the symbolic save paths of a history to real paths.
	SavePath func(sym string) string
	groups   map[*term.Group]*jen.Group // group targets of rcode/rplain (grouptarget.go)
	// Maps: the map objects shared by importnames operations that carry a MapKey.
	Maps *MapTable
	// ReuseAddSlices (default false: as before): fadd hands File.Add a slice that has spare
	// capacity and overwrites the whole backing array with a marker identifier once Add has
	// returned - Add appends (copies) its arguments, the slice stays the caller's.
	ReuseAddSlices bool
}

func NewWorld() *World {
	return &World{Files: map[int]*jen.File{}, B: term.NewBuilder(), SavePath: func(s string) string { return s }, Maps: NewMapTable()}
}

// Exec runs the history on the implementation and returns the observations.
func (w *World) Exec(h History) (obs []Obs) {
	for i, op := range h {
		if op.Kind == "render" || op.Kind == "rcode" || op.Kind == "rplain" || op.Kind == "save" {
			i, kind := i, op.Kind
			setInFlightLazy(func() string {
				return fmt.Sprintf("operation %d (%s) of the history %s", i, kind, truncated(h.Sexp(), 4000))
			})
			opBegin()
		}
		f := w.Files[op.F]
		switch op.Kind {
		case "newfile":
			w.Files[op.F] = jen.NewFile(op.A)
		case "newfilepath":
			w.Files[op.F] = jen.NewFilePath(op.A)
		case "newfilepathname":
			w.Files[op.F] = jen.NewFilePathName(op.A, op.B)
		case "prefix":
			f.PackagePrefix = op.A
		case "noformat":
			f.NoFormat = op.Flag
		case "canonical":
			f.CanonicalPath = op.A
		case "header":
			f.HeaderComment(op.A)
		case "pkgcomment":
			f.PackageComment(op.A)
		case "cgo":
			f.CgoPreamble(op.A)
		case "anon":
			f.Anon(op.Strs...)
		case "importname":
			f.ImportName(op.A, op.B)
		case "importalias":
			f.ImportAlias(op.A, op.B)
		case "importnames":
			if op.MapKey != "" {
				if w.Maps == nil {
					w.Maps = NewMapTable()
				}
				f.ImportNames(w.Maps.Get(op.MapKey, op.Pairs))
				break
			}
			m := map[string]string{}
			for _, p := range op.Pairs {
				m[p[0]] = p[1]
			}
			f.ImportNames(m)
		case "fadd":
			// File.Add(items...) appends one new statement holding the items
			st := op.Code.(*term.Stmt)
			var codes []jen.Code
			s := w.B.Stmt(st)
			if w.ReuseAddSlices {
				codes = make([]jen.Code, 0, len(*s)+3)
			}
			codes = append(codes, []jen.Code(*s)...)
			f.Add(codes...)
			if w.ReuseAddSlices {
				full := codes[:cap(codes)]
				for i := range full {
					full[i] = jen.Id("CLOBBERED_BY_THE_CALLER")
				}
			}
		case "render":
			obs = append(obs, w.guard(func(fw *faultWriter) error { return f.Render(fw) }, op.Flag, op.WFault))
		case "rcode":
			obs = append(obs, w.guard(func(fw *faultWriter) error {
				switch c := w.target(op.Code).(type) {
				case *jen.Statement:
					return c.RenderWithFile(fw, f)
				case *jen.Group:
					return c.RenderWithFile(fw, f)
				}
				panic("hist: rcode target")
			}, op.Flag, op.WFault))
		case "rplain":
			obs = append(obs, w.guard(func(fw *faultWriter) error {
				switch c := w.target(op.Code).(type) {
				case *jen.Statement:
					return c.Render(fw)
				case *jen.Group:
					return c.Render(fw)
				}
				panic("hist: rplain target")
			}, op.Flag, op.WFault))
		case "save":
			obs = append(obs, w.save(f, op))
		case "imports":
			obs = append(obs, ImportsObs(f))
		case "ext":
			if op.Run != nil {
				obs = append(obs, op.Run())
			}
		default:
			panic("hist: bad op " + op.Kind)
		}
		opEnd()
		// runaway guard: an observation of more than RunawayLimit bytes (no stream produces
		// one on purpose) ends the history with a `bad` observation instead of letting a
		// changed implementation that grows its output from render to render exhaust memory
		if n := len(obs); n > 0 && len(obs[n-1].Out) > RunawayLimit {
			obs[n-1] = Obs{Kind: "bad", Msg: fmt.Sprintf("runaway output: %d bytes from operation %s; the rest of the history was not executed", len(obs[n-1].Out), op.Kind)}
			return obs
		}
	}
	return obs
}

// RunawayLimit: see Exec.
const RunawayLimit = 64 << 20

func (w *World) target(n term.Node) interface{} {
	switch x := n.(type) {
	case *term.Stmt:
		return w.B.Stmt(x)
	case term.NilStmt:
		return (*jen.Statement)(nil)
	case term.NilGroup:
		return (*jen.Group)(nil)
	case *term.Group:
		return w.groupTarget(x) // grouptarget.go: a real *jen.Group captured from the ...Func form
	}
	panic(fmt.Sprintf("hist: cannot render a %T directly", n))
}

func (w *World) guard(run func(fw *faultWriter) error, fail bool, shape string) (o Obs) {
	fw := &faultWriter{fail: fail, shape: shape}
	defer func() {
		if r := recover(); r != nil {
			o = Obs{Kind: "panic", Msg: panicMsg(r), Writes: fw.calls, Out: string(fw.buf)}
		}
	}()
	err := run(fw)
	return classify(err, fw)
}

func (w *World) save(f *jen.File, op Op) (o Obs) {
	path := w.SavePath(op.A)
	defer func() {
		if r := recover(); r != nil {
			o = Obs{Kind: "panic", Msg: panicMsg(r)}
		}
	}()
	err := f.Save(path)
	if err == nil {
		// a target that is not a regular file (a device such as /dev/full, reached directly or
		// through a symbolic link) is not read back: reading a device need not end
		if fi, serr := os.Stat(path); serr == nil && !fi.Mode().IsRegular() {
			return Obs{Kind: "save", Path: op.A, Msg: "Save returned nil; the target is not a regular file (" + fi.Mode().String() + ") and was not read back"}
		}
		b, rerr := os.ReadFile(path)
		if rerr != nil {
			return Obs{Kind: "bad", Msg: "saved file unreadable: " + rerr.Error()}
		}
		return Obs{Kind: "save", Path: op.A, Out: string(b)}
	}
	msg := err.Error()
	if i := strings.Index(msg, fmtErrMarker); i >= 0 && strings.HasPrefix(msg, "Error ") {
		return Obs{Kind: "fmterr", Out: msg[i+len(fmtErrMarker):]}
	}
	var pe *os.PathError
	if errors.As(err, &pe) {
		return Obs{Kind: "save", Path: op.A, Failed: true}
	}
	return Obs{Kind: "bad", Msg: "unexpected error: " + msg}
}

// ImportsObs reads the File's import table through the hook.
func ImportsObs(f *jen.File) Obs {
	m := jen.VerifImports(f)
	var out []Import
	for p, d := range m {
		out = append(out, Import{Path: p, Name: d.Name, Alias: d.Alias})
	}
	sort.Slice(out, func(i, j int) bool { return out[i].Path < out[j].Path })
	return Obs{Kind: "imports", Imports: out}
}

// ---- reading the model's observations ----

type sx struct {
	atom string
	list []sx
	isl  bool
}

func parseSx(s string) ([]sx, error) {
	var stack [][]sx
	cur := []sx{}
	i := 0
	for i < len(s) {
		c := s[i]
		switch {
		case c == ' ':
			i++
		case c == '(':
			stack = append(stack, cur)
			cur = []sx{}
			i++
		case c == ')':
			if len(stack) == 0 {
				return nil, errors.New("unbalanced )")
			}
			up := stack[len(stack)-1]
			stack = stack[:len(stack)-1]
			up = append(up, sx{list: cur, isl: true})
			cur = up
			i++
		default:
			j := i
			for j < len(s) && s[j] != ' ' && s[j] != '(' && s[j] != ')' {
				j++
			}
			cur = append(cur, sx{atom: s[i:j]})
			i = j
		}
	}
	if len(stack) != 0 {
		return nil, errors.New("unbalanced (")
	}
	return cur, nil
}

func unx(a string) (string, error) {
	if !strings.HasPrefix(a, "x") {
		return "", fmt.Errorf("not a hex atom: %q", a)
	}
	b, err := hex.DecodeString(a[1:])
	return string(b), err
}

// ParseObs reads a line printed by the model.
func ParseObs(line string) ([]Obs, error) {
	if line == "(badcase)" || line == "(stackoverflow)" {
		return nil, errors.New("model: " + line)
	}
	xs, err := parseSx(line)
	if err != nil {
		return nil, err
	}
	var out []Obs
	for _, e := range xs {
		if !e.isl || len(e.list) == 0 {
			return nil, fmt.Errorf("bad observation in %q", line)
		}
		l := e.list
		switch l[0].atom {
		case "panic":
			m, err := unx(l[1].atom)
			if err != nil {
				return nil, err
			}
			out = append(out, Obs{Kind: "panic", Msg: m})
		case "fmterr":
			m, err := unx(l[1].atom)
			if err != nil {
				return nil, err
			}
			out = append(out, Obs{Kind: "fmterr", Out: m})
		case "write":
			m, err := unx(l[2].atom)
			if err != nil {
				return nil, err
			}
			out = append(out, Obs{Kind: "write", Mode: l[1].atom, Out: m, Failed: l[3].atom == "1"})
		case "save":
			p, err := unx(l[1].atom)
			if err != nil {
				return nil, err
			}
			m, err := unx(l[2].atom)
			if err != nil {
				return nil, err
			}
			out = append(out, Obs{Kind: "save", Path: p, Mode: "fmt", Out: m, Failed: l[3].atom == "1"})
		case "imports":
			o := Obs{Kind: "imports"}
			for _, it := range l[1:] {
				p, err1 := unx(it.list[0].atom)
				n, err2 := unx(it.list[1].atom)
				if err1 != nil || err2 != nil {
					return nil, errors.New("bad imports entry")
				}
				o.Imports = append(o.Imports, Import{Path: p, Name: n, Alias: it.list[2].atom == "1"})
			}
			out = append(out, o)
		default:
			if l[0].isl || l[0].atom == "" {
				return nil, fmt.Errorf("unknown observation %q", l[0].atom)
			}
			// generic observation of a non-history line (ext.go): head atom + the rest re-printed
			out = append(out, Obs{Kind: l[0].atom, Out: printSx(l[1:])})
		}
	}
	return out, nil
}

// Expected turns a model observation into what the implementation must show: the model
// leaves the formatter symbolic (Mode fmt), the harness applies go/format here.
func Expected(m Obs, noformat bool) Obs {
	switch m.Kind {
	case "write", "save":
		// The model prints no mode for save: the caller passes noformat = the NoFormat setting
		// of the saved file at that point of the history (the text is then written as is).
		if m.Mode == "raw" || (m.Kind == "save" && noformat) {
			o := m
			if m.Failed {
				o.Out = ""
			}
			return o
		}
		b, err := format.Source([]byte(m.Out))
		if err != nil {
			return Obs{Kind: "fmterr", Out: m.Out}
		}
		o := m
		o.Out = string(b)
		if m.Failed {
			o.Out = ""
		}
		return o
	}
	return m
}

// SameObs compares an expected observation with an implementation one (full projection).
func SameObs(exp, got Obs) bool {
	if exp.Kind != got.Kind {
		return false
	}
	switch exp.Kind {
	case "panic":
		return true
	case "fmterr":
		return exp.Out == got.Out
	case "write":
		return exp.Failed == got.Failed && exp.Out == got.Out
	case "save":
		if exp.Failed != got.Failed {
			return false
		}
		return exp.Failed || exp.Out == got.Out
	case "imports":
		if len(exp.Imports) != len(got.Imports) {
			return false
		}
		for i := range exp.Imports {
			if exp.Imports[i] != got.Imports[i] {
				return false
			}
		}
		return true
	case "bad":
		return false
	}
	// generic observation of a non-history line (ext.go)
	return exp.Out == got.Out
}

func (o Obs) String() string {
	switch o.Kind {
	case "panic":
		return fmt.Sprintf("panic(%q)", o.Msg)
	case "fmterr":
		return fmt.Sprintf("fmterr(raw=%q)", o.Out)
	case "write":
		return fmt.Sprintf("write(failed=%v writes=%d out=%q)", o.Failed, o.Writes, o.Out)
	case "save":
		return fmt.Sprintf("save(path=%q failed=%v out=%q)", o.Path, o.Failed, o.Out)
	case "imports":
		return fmt.Sprintf("imports(%v)", o.Imports)
	}
	if o.Msg == "" && o.Out != "" {
		return fmt.Sprintf("%s(%s)", o.Kind, o.Out)
	}
	return fmt.Sprintf("%s(%s)", o.Kind, o.Msg)
}

func truncated(s string, n int) string {
	if len(s) > n {
		return s[:n] + "..."
	}
	return s
}
