package hist

import "strings"

// Non-history lines.  A line for the model whose first element names another kind of case
// ("(heap)", "(skel)", "(lit)": coq/Model/Top.v) is written as a History of ops of kind
// "ext": Op.A is printed verbatim by Sexp, and Op.Run (optional) computes the
// implementation-side observation of that element when World.Exec reaches it.  What the
// model prints for such a line is read by ParseObs as generic observations: for every
// printed list `(head rest...)` with an unknown head atom, Obs{Kind: head, Out: the rest
// re-printed by printSx}.  SameObs compares Kind and Out.  Ext builds the implementation
// side of such an observation in the same canonical form.

// Ext makes the generic observation `(kind rest)`; rest is S-expression text.
func Ext(kind, rest string) Obs {
	xs, err := parseSx(rest)
	if err != nil {
		return Obs{Kind: "bad", Msg: "hist.Ext: " + err.Error()}
	}
	return Obs{Kind: kind, Out: printSx(xs)}
}

func printSx(xs []sx) string {
	var b strings.Builder
	var wr func(xs []sx)
	wr = func(xs []sx) {
		for i, e := range xs {
			if i > 0 {
				b.WriteByte(' ')
			}
			if e.isl {
				b.WriteByte('(')
				wr(e.list)
				b.WriteByte(')')
			} else {
				b.WriteString(e.atom)
			}
		}
	}
	wr(xs)
	return b.String()
}
